"""E1/E2/E3 - abstract interpreter for Python function bodies (pure ``ast``; nothing is executed).

The interpreter walks the *source* of repository functions over an abstract domain:

* ``Const``   python constants that occur in the source (names of dispatch methods, flags, None);
* ``NodeV``   a *schematic* AST node handed to an interpreter handler: its class and the shape of its
              fields are concrete (``Compare`` with three comparators), its run-time meaning is not;
* ``ListV``/``DictV``  containers built by the analysed code from the above;
* ``Sym``     an opaque run-time value identified by a structural tag (``val(arg.left)``);
* ``App``     an uninterpreted application ``op(args...)`` over abstract values (``add(val(l), val(r))``);
* ``ObjV``    an object with a known repository class (``self``) whose attributes live in the heap part
              of the configuration.

Undecided branch tests fork the configuration; decisions on the same atom are remembered, so one path is
consistent (predicate abstraction with explicit enumeration).  Calls and awaits may raise according to a
policy; ``try/except/finally``, loop ``else`` and ``break/continue/return`` are modelled exactly.
Repository functions are inlined to a bounded depth; the two ``getattr(self, "<prefix>" + cls)`` dispatch
families resolve exactly because the class of a schematic node is concrete.

A *policy* object customises calls (events, summaries), exceptions and atoms for each rule.
No path is handed to a solver and no repository code is imported or run.
"""

from __future__ import annotations

import ast
import itertools

from .repo import AnalysisError, dotted, norm, walk_no_nested


# ----------------------------------------------------------------------
# abstract values
# ----------------------------------------------------------------------
from .repo import TOUCHED_NODES as _TOUCHED  # noqa: E402

class AV:
    __slots__ = ("_hc",)

    def __hash__(self):
        try:
            return self._hc
        except AttributeError:
            h = self._hash()
            self._hc = h
            return h


class Const(AV):
    __slots__ = ("v",)
    __hash__ = AV.__hash__

    def __init__(self, v):
        self.v = v

    def __eq__(self, o):
        return isinstance(o, Const) and type(o.v) is type(self.v) and o.v == self.v

    def _hash(self):
        return hash(("C", type(self.v).__name__, self.v if _hashable(self.v) else repr(self.v)))

    def __repr__(self):
        return f"{self.v!r}"


def _hashable(v):
    try:
        hash(v)
        return True
    except TypeError:
        return False


class Sym(AV):
    """Opaque run-time value with a structural tag."""

    __slots__ = ("tag",)
    __hash__ = AV.__hash__

    def __init__(self, tag):
        self.tag = tag

    def __eq__(self, o):
        return isinstance(o, Sym) and o.tag == self.tag

    def _hash(self):
        return hash(("S", self.tag))

    def __repr__(self):
        return f"${self.tag}"


class App(AV):
    """Uninterpreted application op(args)."""

    __slots__ = ("op", "args")
    __hash__ = AV.__hash__

    def __init__(self, op, args):
        self.op = op
        self.args = tuple(args)

    def __eq__(self, o):
        return isinstance(o, App) and o.op == self.op and o.args == self.args

    def _hash(self):
        return hash(("A", self.op, self.args))

    def __repr__(self):
        return f"{self.op}({', '.join(map(repr, self.args))})"


class ListV(AV):
    """Sequence / set value.  ``origin`` = (heap slot, key) when the value was read out of a dictionary that lives in the heap (`queues = cls.notify[topic]`):
    mutating it through the local mutates the element of that dictionary.  Not part of equality."""

    __slots__ = ("items", "kind", "origin")
    __hash__ = AV.__hash__

    def __init__(self, items, kind="list", origin=None):
        self.items = tuple(items)
        self.kind = kind
        self.origin = origin

    def __eq__(self, o):
        return isinstance(o, ListV) and o.items == self.items and o.kind == self.kind

    def _hash(self):
        return hash(("L", self.kind, self.items))

    def __repr__(self):
        return f"{self.kind}{list(self.items)!r}"


class DictV(AV):
    """Dictionary value; ``origin`` names the heap slot it is an alias of (None for fresh dictionaries / copies)."""

    __slots__ = ("items", "origin")
    __hash__ = AV.__hash__

    def __init__(self, items, origin=None):
        self.items = tuple(items)  # ((key AV, val AV), ...) insertion ordered
        self.origin = origin

    def __eq__(self, o):
        return isinstance(o, DictV) and o.items == self.items and o.origin == self.origin

    def _hash(self):
        return hash(("D", self.items, self.origin))

    def get(self, key):
        for k, v in self.items:
            if k == key:
                return v
        return None

    def set(self, key, val):
        out, done = [], False
        for k, v in self.items:
            if k == key:
                out.append((k, val))
                done = True
            else:
                out.append((k, v))
        if not done:
            out.append((key, val))
        return DictV(out, self.origin)

    def __repr__(self):
        return "{" + ", ".join(f"{k!r}: {v!r}" for k, v in self.items) + "}"


class NodeV(AV):
    """Schematic AST node: concrete class and field shape."""

    __slots__ = ("cls", "fields", "path")
    __hash__ = AV.__hash__

    def __init__(self, cls, fields, path):
        self.cls = cls  # e.g. 'Compare'
        self.fields = fields  # dict name -> AV (NodeV/ListV/Const)
        self.path = path  # 'arg.comparators[1]'

    def __eq__(self, o):
        return isinstance(o, NodeV) and o.path == self.path and o.cls == self.cls

    def _hash(self):
        return hash(("N", self.cls, self.path))

    def __repr__(self):
        return f"<{self.cls} {self.path}>"


class ObjV(AV):
    """An object of a known repository class; attributes live in cfg.heap under ``<oid>.<attr>``."""

    __slots__ = ("oid", "cls")
    __hash__ = AV.__hash__

    def __init__(self, oid, cls):
        self.oid = oid
        self.cls = cls

    def __eq__(self, o):
        return isinstance(o, ObjV) and o.oid == self.oid

    def _hash(self):
        return hash(("O", self.oid))

    def __repr__(self):
        return f"<obj {self.oid}:{self.cls}>"


class FuncV(AV):
    """A repository function (ast node) optionally bound to a receiver."""

    __slots__ = ("node", "recv", "name", "closure")
    __hash__ = AV.__hash__

    def __init__(self, node, recv=None, name=None, closure=None):
        self.node = node
        self.recv = recv
        self.name = name or getattr(node, "name", "<lambda>")
        self.closure = closure

    def _cells(self):
        return frozenset(self.closure.items()) if isinstance(self.closure, dict) else None

    def __eq__(self, o):
        return isinstance(o, FuncV) and o.node is self.node and o.recv == self.recv and o._cells() == self._cells()

    def _hash(self):
        return hash(("F", id(self.node), self.recv, self._cells()))

    def __repr__(self):
        return f"<func {self.name}>"


class ClassV(AV):
    """A class object known by name (repository class, builtin or ast node class)."""

    __slots__ = ("name",)
    __hash__ = AV.__hash__

    def __init__(self, name):
        self.name = name

    def __eq__(self, o):
        return isinstance(o, ClassV) and o.name == self.name

    def _hash(self):
        return hash(("K", self.name))

    def __repr__(self):
        return f"<class {self.name}>"


class ExcV(AV):
    __slots__ = ("cls", "origin")
    __hash__ = AV.__hash__

    def __init__(self, cls, origin=""):
        self.cls = cls
        self.origin = origin

    def __eq__(self, o):
        return isinstance(o, ExcV) and o.cls == self.cls and o.origin == self.origin

    def _hash(self):
        return hash(("E", self.cls, self.origin))

    def __repr__(self):
        return f"<exc {self.cls} @{self.origin}>"


NONE = Const(None)
TRUE = Const(True)
FALSE = Const(False)

# exception hierarchy used for ``except`` matching (child -> parent)
EXC_PARENT = {
    "Exception": "BaseException",
    "CancelledError": "BaseException",
    "asyncio.CancelledError": "BaseException",
    "KeyboardInterrupt": "BaseException",
    "TimeoutError": "Exception",
    "asyncio.TimeoutError": "Exception",
    "EOFError": "Exception",
    "ConnectionResetError": "Exception",
    "ValueError": "Exception",
    "TypeError": "Exception",
    "NameError": "Exception",
    "UnboundLocalError": "NameError",
    "KeyError": "Exception",
    "AttributeError": "Exception",
    "SyntaxError": "Exception",
    "ImportError": "Exception",
    "ModuleNotFoundError": "ImportError",
    "RuntimeError": "Exception",
    "NotImplementedError": "RuntimeError",
    "AssertionError": "Exception",
    "PackageNotFoundError": "ModuleNotFoundError",
    "vol.Invalid": "Exception",
    "HomeAssistantError": "Exception",
    "asyncio.QueueFull": "Exception",
    "json.JSONDecodeError": "ValueError",
    "RecursionError": "RuntimeError",
    "UnicodeError": "ValueError",
    "UnicodeDecodeError": "UnicodeError",
    "UnicodeEncodeError": "UnicodeError",
    "OSError": "Exception",
    "FileNotFoundError": "OSError",
    "PermissionError": "OSError",
    "IsADirectoryError": "OSError",
    "LookupError": "Exception",
    "IndexError": "Exception",
    "ZeroDivisionError": "Exception",
    "ArithmeticError": "Exception",
    "StopIteration": "Exception",
    "StopAsyncIteration": "Exception",
    "RequirementsNotFound": "HomeAssistantError",
    "InvalidVersion": "ValueError",
}
_CANON = {"asyncio.CancelledError": "CancelledError", "asyncio.TimeoutError": "TimeoutError"}


def canon_exc(name):
    return _CANON.get(name, name)


def exc_is_subclass(name, base):
    name, base = canon_exc(name), canon_exc(base)
    seen = set()
    while name is not None and name not in seen:
        if name == base:
            return True
        seen.add(name)
        name = canon_exc(EXC_PARENT.get(name)) if EXC_PARENT.get(name) else None
    return False


# ----------------------------------------------------------------------
# configurations
# ----------------------------------------------------------------------
class Cfg:
    __slots__ = ("env", "heap", "trace", "assume", "facts", "_h")

    def __init__(self, env=None, heap=None, trace=(), assume=frozenset(), facts=frozenset()):
        self.env = env or {}
        self.heap = heap or {}
        self.trace = trace
        self.assume = assume
        self.facts = facts
        self._h = None

    def key(self):
        if self._h is None:
            self._h = (
                frozenset(self.env.items()),
                frozenset(self.heap.items()),
                self.trace,
                self.assume,
                self.facts,
            )
        return self._h

    def __eq__(self, o):
        return isinstance(o, Cfg) and self.key() == o.key()

    def __hash__(self):
        return hash(self.key())

    # functional updates
    def set(self, name, val):
        env = dict(self.env)
        env[name] = val
        return Cfg(env, self.heap, self.trace, self.assume, self.facts)

    def unset(self, name):
        if name not in self.env:
            return self
        env = dict(self.env)
        del env[name]
        return Cfg(env, self.heap, self.trace, self.assume, self.facts)

    def hset(self, key, val):
        heap = dict(self.heap)
        if isinstance(val, DictV) and val.origin == key:
            val = DictV(val.items)  # the slot itself holds the dictionary, not an alias of it
        heap[key] = val
        return Cfg(self.env, heap, self.trace, self.assume, self.facts)

    def hdel(self, key):
        if key not in self.heap:
            return self
        heap = dict(self.heap)
        del heap[key]
        return Cfg(self.env, heap, self.trace, self.assume, self.facts)

    def with_env(self, env):
        return Cfg(env, self.heap, self.trace, self.assume, self.facts)

    def emit(self, ev):
        return Cfg(self.env, self.heap, self.trace + (ev,), self.assume, self.facts)

    def assuming(self, atom, val):
        return Cfg(self.env, self.heap, self.trace, self.assume | {(atom, val)}, self.facts)

    def decided(self, atom):
        for a, v in self.assume:
            if a == atom:
                return v
        return None

    def fact(self, f):
        if f in self.facts:
            return self
        return Cfg(self.env, self.heap, self.trace, self.assume, self.facts | {f})

    def unfact(self, f):
        if f not in self.facts:
            return self
        return Cfg(self.env, self.heap, self.trace, self.assume, self.facts - {f})

    def with_facts(self, facts):
        return Cfg(self.env, self.heap, self.trace, self.assume, frozenset(facts))


class Out:
    """Outcome accumulator: kind -> ordered unique configurations."""

    KINDS = ("normal", "return", "break", "continue", "raise")

    def __init__(self):
        self.d = {k: {} for k in self.KINDS}

    def add(self, kind, cfg):
        self.d[kind].setdefault(cfg, None)

    def extend(self, kind, cfgs):
        for c in cfgs:
            self.d[kind].setdefault(c, None)

    def get(self, kind):
        return list(self.d[kind].keys())

    def merge(self, other, skip=()):
        for k in self.KINDS:
            if k in skip:
                continue
            self.extend(k, other.get(k))

    def total(self):
        return sum(len(v) for v in self.d.values())


class Budget(AnalysisError):
    pass


# ----------------------------------------------------------------------
# policy
# ----------------------------------------------------------------------
class Policy:
    """Rule specific semantics; the defaults are conservative."""

    inline_depth = 4
    track_aliases = False  # dictionaries read from object attributes remember their heap slot (mutation through the alias is visible)
    record_atoms = True  # remember the decision taken on an undecided test (path consistency)
    param_writeback = True  # a container passed by name and mutated in place by an interpreted callee is seen by the caller
    loop_unroll = 2  # iterations explored for loops over non-concrete iterables
    max_cfgs = 20000

    def __init__(self, program=None):
        self.program = program

    # -- names -----------------------------------------------------------
    def global_name(self, name, interp):
        return None  # -> AV or None (unknown => Sym('g:'+name))

    # -- calls -----------------------------------------------------------
    def call(self, interp, node, fname, fval, args, kwargs, cfg, out):
        """Return list[(cfg, val)] to override the default treatment, or None."""
        return None

    def resolve(self, interp, fname, fval, cfg):
        """Return a FuncV to inline for an otherwise unknown callee, or None."""
        return None

    def call_raises(self, interp, node, fname, fval, cfg):
        """Exception class names an (un-inlined) call may raise."""
        return ("Exception",)

    def await_raises(self, interp, node, cfg):
        return ("CancelledError",)

    def on_await(self, interp, node, cfg):
        return cfg

    # -- tests -----------------------------------------------------------
    def truth(self, interp, val, cfg):
        """True/False when decidable for this abstract value, None to fork on the atom."""
        return None

    def isinstance(self, interp, val, clsnames, cfg):
        return None

    def atom_key(self, interp, node, val, cfg):
        return ("truth", val)

    # -- attributes --------------------------------------------------------
    def attr(self, interp, base, attr, cfg):
        return None

    def on_store_attr(self, interp, base, attr, val, cfg, node):
        return cfg

    def on_stmt(self, interp, stmt, cfg):
        return cfg

    def equal_hook(self, l, r):
        """Scenario specific equality of abstract objects (None: undecided by the hook)."""
        return None

    def abstract_local(self, name, val, node):
        """Value actually stored for a kept local (identity by default; rules may widen)."""
        return val

    def atom_relevant(self, interp, node, val, cfg):
        """False: the decision on this test need not be remembered (keeps irrelevant forks mergeable)."""
        return True

    def keep_local(self, name):
        """False: the local is irrelevant for the rule; it is not stored (reads yield an opaque symbol)."""
        return True


# ----------------------------------------------------------------------
BIN_NAME = {
    ast.Add: "add", ast.Sub: "sub", ast.Mult: "mult", ast.Div: "div", ast.Mod: "mod", ast.Pow: "pow",
    ast.LShift: "lshift", ast.RShift: "rshift", ast.BitOr: "bitor", ast.BitXor: "bitxor",
    ast.BitAnd: "bitand", ast.FloorDiv: "floordiv", ast.MatMult: "matmult",
}
UN_NAME = {ast.Not: "not", ast.Invert: "invert", ast.UAdd: "uadd", ast.USub: "usub"}
CMP_NAME = {
    ast.Eq: "eq", ast.NotEq: "noteq", ast.Lt: "lt", ast.LtE: "lte", ast.Gt: "gt", ast.GtE: "gte",
    ast.Is: "is", ast.IsNot: "isnot", ast.In: "in", ast.NotIn: "notin",
}


import datetime as _dt  # noqa: E402
import re as _re_mod  # noqa: E402

_DATA_TYPES = (_dt.datetime, _dt.date, _dt.timedelta, _dt.time, _re_mod.Match, _re_mod.Pattern)
_DATA_METHODS = {"total_seconds", "group", "groups", "date", "time", "isoweekday", "weekday", "replace", "timestamp", "start", "end", "span", "astimezone",
                 "match", "fullmatch", "search"}

NOT_NONE_OPS = {"str", "repr", "len", "new", "fstr", "format", "int", "float", "bool", "tuple", "list", "set", "dict", "sorted", "frozenset", "not", "slice"}


_IS_GEN = {}  # id of a function node -> it is a generator function


class Interp:
    def __init__(self, policy: Policy, module_rel: str | None = None):
        self.policy = policy
        self.program = policy.program
        self.depth = 0
        self.steps = 0
        self.module_rel = module_rel
        self.sym_counter = itertools.count()
        self.call_stack = []

    # ------------------------------------------------------------------
    # entry points
    # ------------------------------------------------------------------
    def run_function(self, func, args: dict, cfg: Cfg | None = None) -> Out:
        """Abstractly execute ``func`` body with parameter bindings ``args``."""
        cfg = cfg or Cfg()
        env = dict(args)
        out = Out()
        _TOUCHED.add(id(func))
        is_gen = _IS_GEN.get(id(func))
        if is_gen is None:
            is_gen = _IS_GEN[id(func)] = not isinstance(func, ast.Lambda) and any(isinstance(n, (ast.Yield, ast.YieldFrom)) for n in walk_no_nested(func, include_self=False))
        if is_gen:
            env["$yielded"] = ListV((), "gen")
        res = self.exec_block(func.body, [cfg.with_env(env)])
        out.merge(res)
        # falling off the end returns None
        for c in res.get("normal"):
            out.d["normal"].pop(c, None)
            out.add("return", c.set("$ret", NONE))
        if is_gen:
            # a generator function: calling it gives the sequence of the values it yields (evaluated eagerly - its body is taken to have no
            # effects that depend on when the consumer asks for the next value)
            rets = list(out.get("return"))
            out.d["return"] = {}
            for c in rets:
                out.add("return", c.set("$ret", c.env.get("$yielded", ListV((), "gen"))))
        return out

    def e_Yield(self, node, cfg, out):
        res = []
        for c, v in (self.ev(node.value, cfg, out) if node.value is not None else [(cfg, NONE)]):
            acc = c.env.get("$yielded")
            if not isinstance(acc, ListV):
                raise AnalysisError(f"absint: yield outside an interpreted generator function at line {getattr(node, 'lineno', 0)}")
            res.append((c.set("$yielded", ListV(acc.items + (v,), "gen")), NONE))
        return res

    def e_YieldFrom(self, node, cfg, out):
        res = []
        for c, v in self.ev(node.value, cfg, out):
            acc = c.env.get("$yielded")
            if not isinstance(acc, ListV) or not isinstance(v, ListV):
                raise AnalysisError(f"absint: unsupported yield from at line {getattr(node, 'lineno', 0)}")
            res.append((c.set("$yielded", ListV(acc.items + v.items, "gen")), NONE))
        return res

    # ------------------------------------------------------------------
    # statements
    # ------------------------------------------------------------------
    def exec_block(self, stmts, cfgs) -> Out:
        out = Out()
        cur = list(dict.fromkeys(cfgs))
        for stmt in stmts:
            if not cur:
                break
            nxt = {}
            for cfg in cur:
                o = self.exec_stmt(stmt, cfg)
                for c in o.get("normal"):
                    nxt.setdefault(c, None)
                out.merge(o, skip=("normal",))
            cur = list(nxt.keys())
            if len(cur) > self.policy.max_cfgs:
                raise Budget(f"configuration budget exceeded at line {getattr(stmt, 'lineno', 0)}")
        out.extend("normal", cur)
        return out

    def exec_stmt(self, stmt, cfg) -> Out:
        self.steps += 1
        if self.steps > 3_000_000:
            raise Budget("step budget exceeded")
        cfg = self.policy.on_stmt(self, stmt, cfg)
        m = getattr(self, "s_" + stmt.__class__.__name__, None)
        if m is None:
            raise AnalysisError(f"absint: unsupported statement {stmt.__class__.__name__} at line {stmt.lineno}")
        return m(stmt, cfg)

    def s_Pass(self, stmt, cfg):
        out = Out()
        out.add("normal", cfg)
        return out

    s_Global = s_Pass
    s_Nonlocal = s_Pass
    s_Import = s_Pass
    s_ImportFrom = s_Pass

    def s_Expr(self, stmt, cfg):
        out = Out()
        for c, _ in self.ev(stmt.value, cfg, out):
            out.add("normal", c)
        return out

    def s_Assign(self, stmt, cfg):
        out = Out()
        for c, v in self.ev(stmt.value, cfg, out):
            cs = [c]
            slot = None
            if len(stmt.targets) > 1 and isinstance(v, ListV) and v.kind in ("list", "set"):
                # `x = self.y = <list>`: the local and the attribute are one object - what is done to it through the local is done to the attribute
                for tgt in stmt.targets:
                    if isinstance(tgt, ast.Attribute):
                        sub = Out()
                        b = self.ev(tgt.value, c, sub)
                        if len(b) == 1 and isinstance(b[0][1], (ObjV, ClassV)):
                            slot = f"{b[0][1].oid if isinstance(b[0][1], ObjV) else b[0][1].name}.{tgt.attr}"
            for tgt in stmt.targets:
                ncs = []
                for c1 in cs:
                    tv = ListV(v.items, v.kind, ("$slot", slot)) if slot is not None and isinstance(tgt, ast.Name) else v
                    ncs.extend(self.assign(tgt, tv, c1, out))
                cs = ncs
            out.extend("normal", cs)
        return out

    def s_AnnAssign(self, stmt, cfg):
        out = Out()
        if stmt.value is None:
            out.add("normal", cfg)
            return out
        for c, v in self.ev(stmt.value, cfg, out):
            out.extend("normal", self.assign(stmt.target, v, c, out))
        return out

    def s_AugAssign(self, stmt, cfg):
        out = Out()
        load = _as_load(stmt.target)
        for c, cur in self.ev(load, cfg, out):
            for c1, v in self.ev(stmt.value, c, out):
                new = self.binop(stmt.op, cur, v, inplace=True)
                out.extend("normal", self.assign(stmt.target, new, c1, out))
        return out

    def s_Delete(self, stmt, cfg):
        out = Out()
        cs = [cfg]
        for tgt in stmt.targets:
            ncs = []
            for c in cs:
                if isinstance(tgt, ast.Name):
                    ncs.append(c.unset(tgt.id))
                elif isinstance(tgt, ast.Subscript):
                    for c1, base in self.ev(tgt.value, c, out):
                        for c2, idx in self.ev(tgt.slice, c1, out):
                            c3 = c2.emit(("delitem", base, idx))
                            if isinstance(base, DictV):
                                if base.get(idx) is None and all(isinstance(k, Const) for k, _ in base.items) and isinstance(idx, Const):
                                    out.add("raise", c3.set("$exc", ExcV("KeyError", f"del L{stmt.lineno}")))
                                    continue
                                left = [(k, v) for k, v in base.items if k != idx]
                                c3 = self.store_back(tgt.value, DictV(left, base.origin if isinstance(tgt.value, ast.Name) else None), c3)
                                if base.origin is not None:
                                    c3 = c3.hset(base.origin, DictV(left))  # deleted through an alias of the heap dictionary
                            if isinstance(base, ListV) and isinstance(idx, App) and idx.op == "slice" and all(a == NONE for a in idx.args):
                                if isinstance(tgt.value, ast.Name):
                                    c3 = c3.set(tgt.value.id, ListV((), base.kind))
                                else:
                                    c3 = self.store_back(tgt.value, ListV((), base.kind), c3)
                            ncs.append(c3)
                elif isinstance(tgt, ast.Attribute):
                    for c1, base in self.ev(tgt.value, c, out):
                        ncs.append(c1.emit(("delattr", base, tgt.attr)))
                else:
                    ncs.append(c)
            cs = ncs
        out.extend("normal", cs)
        return out

    def s_Return(self, stmt, cfg):
        out = Out()
        if stmt.value is None:
            out.add("return", cfg.set("$ret", NONE))
            return out
        for c, v in self.ev(stmt.value, cfg, out):
            out.add("return", c.set("$ret", v))
        return out

    def s_Break(self, stmt, cfg):
        out = Out()
        out.add("break", cfg)
        return out

    def s_Continue(self, stmt, cfg):
        out = Out()
        out.add("continue", cfg)
        return out

    def s_Raise(self, stmt, cfg):
        out = Out()
        if stmt.exc is None:
            cur = cfg.env.get("$handling")
            out.add("raise", cfg.set("$exc", cur if cur is not None else ExcV("Exception", "reraise")))
            return out
        for c, v in self.ev(stmt.exc, cfg, out):
            cs = [(c, v)]
            if stmt.cause is not None:
                cs = []
                for c1, cause in self.ev(stmt.cause, c, out):
                    cs.append((c1.emit(("raise_from", v, cause)), v))
            for c1, v1 in cs:
                out.add("raise", c1.set("$exc", self.to_exc(v1, stmt)))
        return out

    def to_exc(self, v, node):
        if isinstance(v, ExcV):
            return v
        if isinstance(v, ClassV):
            return ExcV(v.name, f"L{node.lineno}")
        if isinstance(v, App) and v.op == "new" and isinstance(v.args[0], ClassV):
            return ExcV(v.args[0].name, f"L{node.lineno}")
        return ExcV("Exception", f"raise {v!r}")

    def s_Assert(self, stmt, cfg):
        out = Out()
        for c, t in self.test(stmt.test, cfg, out):
            if t:
                out.add("normal", c)
            else:
                if stmt.msg is not None:
                    for c1, _ in self.ev(stmt.msg, c, out):
                        out.add("raise", c1.set("$exc", ExcV("AssertionError", f"L{stmt.lineno}")))
                else:
                    out.add("raise", c.set("$exc", ExcV("AssertionError", f"L{stmt.lineno}")))
        return out

    def s_If(self, stmt, cfg):
        out = Out()
        tcs, fcs = [], []
        for c, t in self.test(stmt.test, cfg, out):
            (tcs if t else fcs).append(c)
        if tcs:
            out.merge(self.exec_block(stmt.body, tcs))
        if fcs:
            if stmt.orelse:
                out.merge(self.exec_block(stmt.orelse, fcs))
            else:
                out.extend("normal", fcs)
        return out

    def s_FunctionDef(self, stmt, cfg):
        out = Out()
        out.add("normal", cfg.set(stmt.name, FuncV(stmt, closure=self._capture(stmt, cfg))))
        return out

    def _capture(self, node, cfg):
        """The enclosing variables a nested function / lambda refers to, as they are where it is defined: they go with it when it escapes
        (a closure returned by a factory); while the enclosing frame is still running the caller's current values take precedence."""
        names = {n.id for n in ast.walk(node) if isinstance(n, ast.Name)}
        cells = {k: v for k, v in cfg.env.items() if k in names and not k.startswith("$")}
        return cells or True

    s_AsyncFunctionDef = s_FunctionDef

    def s_ClassDef(self, stmt, cfg):
        out = Out()
        out.add("normal", cfg.set(stmt.name, ClassV(stmt.name)))
        return out

    # -- loops ------------------------------------------------------------
    def s_For(self, stmt, cfg):
        out = Out()
        for c, it in self.ev(stmt.iter, cfg, out):
            items = self.concrete_iter(it)
            slot = self._live_slot(stmt.iter, c, it) if getattr(self.policy, "live_lists", False) else None
            if slot is not None:
                self._loop_live(stmt, c, slot, out)
            elif items is not None:
                self._loop_concrete(stmt, c, items, out)
            else:
                self._loop_symbolic(stmt, c, it, out)
        return out

    s_AsyncFor = s_For

    def concrete_iter(self, it):
        if isinstance(it, ListV):
            return list(it.items)
        if isinstance(it, DictV):
            return [k for k, _ in it.items]
        if isinstance(it, Const) and isinstance(it.v, (tuple, list, frozenset)):
            return [Const(x) for x in it.v]
        return None

    def _live_slot(self, iter_node, cfg, it):
        """Description of a container iterated in place: ``for x in self.items`` (list object in the heap) or
        ``for k, v in <chain>.items()`` / ``<chain>`` where <chain> is an attribute/subscript chain rooted at a heap object (dict).
        Python's list iterator reads the live list by index; a dict iterator raises RuntimeError when the size changed."""
        view = None
        expr = iter_node
        if isinstance(iter_node, ast.Call) and isinstance(iter_node.func, ast.Attribute) and iter_node.func.attr in ("items", "keys", "values") and not iter_node.args:
            view = iter_node.func.attr
            expr = iter_node.func.value
        root = expr
        while isinstance(root, (ast.Attribute, ast.Subscript)):
            root = root.value
        if not (isinstance(expr, (ast.Attribute, ast.Subscript)) and isinstance(root, ast.Name)):
            return None
        sub = Out()
        rv = self.ev(root, cfg, sub)
        if len(rv) != 1 or not isinstance(rv[0][1], (ObjV, ClassV)):
            return None
        cur = self.ev(expr, cfg, sub)
        if len(cur) != 1:
            return None
        val = cur[0][1]
        if view is None and isinstance(val, ListV) and val.kind == "list":
            return (expr, None, None)
        if isinstance(val, DictV):
            return (expr, view or "keys", len(val.items))
        return None

    def _loop_live(self, stmt, cfg, slot, out):
        expr, view, size0 = slot
        cur = [cfg]
        i = 0
        done = []
        gkey = None
        if isinstance(expr, ast.Attribute):
            sub = Out()
            b = self.ev(expr.value, cfg, sub)
            if len(b) == 1 and isinstance(b[0][1], ObjV):
                gkey = f"$gen:{b[0][1].oid}.{expr.attr}"
        gen0 = cfg.heap.get(gkey) if gkey else None
        snap = f"$snap:{id(stmt)}:{self.depth}"
        while cur and i < 64:
            nxt = {}
            for c in cur:
                sub = Out()
                if gkey is not None and c.heap.get(gkey) != gen0 and c.heap.get(snap) is not None:
                    # the attribute was re-assigned meanwhile: the iterator still holds the object it started on
                    cont = c.heap.get(snap)
                else:
                    vals = self.ev(expr, c, sub)
                    cont = vals[0][1] if len(vals) == 1 else None
                    if gkey is not None and isinstance(cont, (ListV, DictV)):
                        c = c.hset(snap, cont)
                if view is None:
                    items = list(cont.items) if isinstance(cont, ListV) else []
                else:
                    if not isinstance(cont, DictV):
                        done.append(c)
                        continue
                    if len(cont.items) != size0:
                        out.add("raise", c.set("$exc", ExcV("RuntimeError", f"dictionary changed size during iteration L{stmt.lineno}")))
                        continue
                    items = [ListV((k, v), "tuple") if view == "items" else (k if view == "keys" else v) for k, v in cont.items]
                if i >= len(items):
                    done.append(c)
                    continue
                for c1 in self.assign(stmt.target, items[i], c, out):
                    o = self.exec_block(stmt.body, [c1])
                    for c2 in o.get("normal") + o.get("continue"):
                        nxt.setdefault(c2, None)
                    out.extend("normal", o.get("break"))
                    out.extend("return", o.get("return"))
                    out.extend("raise", o.get("raise"))
            cur = list(nxt.keys())
            i += 1
        if gkey is not None:
            done = [c.hdel(snap) if hasattr(c, "hdel") else c for c in done]
        if done:
            if stmt.orelse:
                out.merge(self.exec_block(stmt.orelse, done))
            else:
                out.extend("normal", done)

    def _loop_concrete(self, stmt, cfg, items, out):
        cur = [cfg]
        for item in items:
            nxt = {}
            for c in cur:
                for c1 in self.assign(stmt.target, item, c, out):
                    o = self.exec_block(stmt.body, [c1])
                    for c2 in o.get("normal") + o.get("continue"):
                        nxt.setdefault(c2, None)
                    out.extend("normal", o.get("break"))
                    out.extend("return", o.get("return"))
                    out.extend("raise", o.get("raise"))
            cur = list(nxt.keys())
            if not cur:
                break
        if cur:
            if stmt.orelse:
                out.merge(self.exec_block(stmt.orelse, cur))
            else:
                out.extend("normal", cur)

    def _loop_symbolic(self, stmt, cfg, it, out):
        """Loop over an opaque iterable: 0..k iterations, stop early at a fixpoint of configurations."""
        seen = {}
        cur = [cfg]
        exits = {}
        k = self.policy.loop_unroll
        for i in range(k + 1):
            for c in cur:
                exits.setdefault(c, None)  # iterable exhausted here
            if i == k:
                break
            nxt = {}
            for c in cur:
                item = Sym(("item", self._tag(it), norm(stmt.target)))
                for c1 in self.assign(stmt.target, item, c.emit(("iter", norm(stmt.iter))) if self.policy_wants_iter() else c, out):
                    o = self.exec_block(stmt.body, [c1])
                    for c2 in o.get("normal") + o.get("continue"):
                        if c2 not in seen:
                            nxt.setdefault(c2, None)
                    out.extend("normal", o.get("break"))
                    out.extend("return", o.get("return"))
                    out.extend("raise", o.get("raise"))
            for c in nxt:
                seen[c] = None
            cur = list(nxt.keys())
            if not cur:
                break
        ex = list(exits.keys())
        if stmt.orelse:
            out.merge(self.exec_block(stmt.orelse, ex))
        else:
            out.extend("normal", ex)

    def policy_wants_iter(self):
        return getattr(self.policy, "emit_iter", False)

    def _tag(self, v):
        return repr(v)

    def s_While(self, stmt, cfg):
        out = Out()
        seen = {}
        cur = [cfg]
        k = max(self.policy.loop_unroll, 1)
        exits = {}
        infinite = isinstance(stmt.test, ast.Constant) and bool(stmt.test.value)
        for i in range(k + 1):
            tcs = []
            for c in cur:
                for c1, t in self.test(stmt.test, c, out):
                    if t:
                        tcs.append(c1)
                    else:
                        exits.setdefault(c1, None)
            if i == k:
                # bounded: remaining iterations are not explored (summarised by fixpoint check)
                break
            nxt = {}
            for c in tcs:
                o = self.exec_block(stmt.body, [c])
                for c2 in o.get("normal") + o.get("continue"):
                    if c2 not in seen:
                        nxt.setdefault(c2, None)
                out.extend("normal", o.get("break"))
                out.extend("return", o.get("return"))
                out.extend("raise", o.get("raise"))
            for c in nxt:
                seen[c] = None
            cur = list(nxt.keys())
            if not cur:
                break
        ex = list(exits.keys())
        if not infinite or ex:
            if stmt.orelse:
                out.merge(self.exec_block(stmt.orelse, ex))
            else:
                out.extend("normal", ex)
        return out

    # -- try ----------------------------------------------------------------
    def s_Try(self, stmt, cfg):
        out = Out()
        body = self.exec_block(stmt.body, [cfg])
        pending = Out()  # outcomes before finally
        pending.extend("return", body.get("return"))
        pending.extend("break", body.get("break"))
        pending.extend("continue", body.get("continue"))
        # else clause
        if stmt.orelse and body.get("normal"):
            o = self.exec_block(stmt.orelse, body.get("normal"))
            pending.merge(o)
        else:
            pending.extend("normal", body.get("normal"))
        # handlers
        for c in body.get("raise"):
            exc = c.env.get("$exc")
            self._dispatch_handlers(stmt, c, exc, pending)
        if not stmt.finalbody:
            out.merge(pending)
            return out
        for kind in Out.KINDS:
            cs = pending.get(kind)
            if not cs:
                continue
            fo = self.exec_block(stmt.finalbody, cs)
            # normal completion of finally resumes the pending outcome
            out.extend(kind, fo.get("normal"))
            for k2 in ("return", "break", "continue", "raise"):
                out.extend(k2, fo.get(k2))
        return out

    s_TryStar = s_Try

    def _dispatch_handlers(self, stmt, cfg, exc, pending):
        """Route a raised configuration through the except clauses (may-match forks)."""
        remaining = [cfg]
        for h in stmt.handlers:
            if not remaining:
                break
            names = self._handler_names(h)
            nxt = []
            for c in remaining:
                m = self._match(exc, names)
                if m is True or m is None:
                    c1 = c
                    if m is None:
                        # specific handler, generic exception: both outcomes are possible
                        nxt.append(c)
                        c1 = c.set("$exc", ExcV(names[0] if names else "Exception", getattr(exc, "origin", "")))
                    prev = c1.env.get("$handling")
                    c1 = c1.set("$handling", c1.env.get("$exc"))
                    if h.name:
                        c1 = c1.set(h.name, c1.env.get("$exc"))
                    if getattr(self.policy, "trace_handlers", False):
                        c1 = c1.emit(("handler", h.lineno, getattr(exc, "origin", ""), getattr(exc, "cls", "")))
                    o = self.exec_block(h.body, [c1.unset("$exc")])
                    for kind in Out.KINDS:
                        for c2 in o.get(kind):
                            c2 = c2.set("$handling", prev) if prev is not None else c2.unset("$handling")
                            pending.add(kind, c2)
                else:
                    nxt.append(c)
            remaining = nxt
        pending.extend("raise", remaining)

    def _handler_names(self, h):
        if h.type is None:
            return ["BaseException"]
        if isinstance(h.type, ast.Tuple):
            return [canon_exc(dotted(e) or "Exception") for e in h.type.elts]
        return [canon_exc(dotted(h.type) or "Exception")]

    def _match(self, exc, names):
        """True (caught), False (not caught), None (may be caught: generic exception vs specific handler)."""
        cls = exc.cls if isinstance(exc, ExcV) else "Exception"
        for n in names:
            if exc_is_subclass(cls, n):
                return True
        for n in names:
            if exc_is_subclass(n, cls):
                return None
        return False

    def s_With(self, stmt, cfg):
        out = Out()
        cs = [cfg]
        for item in stmt.items:
            ncs = []
            for c in cs:
                for c1, v in self.ev(item.context_expr, c, out):
                    c1 = c1.emit(("with_enter", norm(item.context_expr))) if getattr(self.policy, "emit_with", False) else c1
                    if item.optional_vars is not None:
                        bound = v if isinstance(v, (ObjV, Const, ListV, DictV)) else Sym(("with", norm(item.context_expr)))
                        ncs.extend(self.assign(item.optional_vars, bound, c1, out))
                    else:
                        ncs.append(c1)
            cs = ncs
        o = self.exec_block(stmt.body, cs)
        # `with contextlib.suppress(A, B):` is `try: ... except (A, B): pass`
        sup = []
        for item in stmt.items:
            ce = item.context_expr
            if isinstance(ce, ast.Call) and dotted(ce.func) in ("contextlib.suppress", "suppress"):
                sup += [(dotted(a) or "").split(".")[-1] for a in ce.args]
        if sup:
            kept = {}
            for c in list(o.get("raise")):
                exc = c.env.get("$exc")
                cls = getattr(exc, "cls", None)
                if cls is not None and any(cls == n or exc_is_subclass(cls, n) for n in sup):
                    o.add("normal", c.unset("$exc") if "$exc" in c.env else c)
                else:
                    kept[c] = None
            o.d["raise"] = kept
        out.merge(o)
        return out

    s_AsyncWith = s_With

    # ------------------------------------------------------------------
    # assignment
    # ------------------------------------------------------------------
    def assign(self, tgt, val, cfg, out):
        if isinstance(tgt, ast.Name):
            if not self.policy.keep_local(tgt.id):
                return [cfg.unset(tgt.id)]
            return [cfg.set(tgt.id, self.policy.abstract_local(tgt.id, val, tgt))]
        if isinstance(tgt, (ast.Tuple, ast.List)):
            n = len(tgt.elts)
            if isinstance(val, ListV) and len(val.items) == n and not any(isinstance(e, ast.Starred) for e in tgt.elts):
                parts = list(val.items)
            else:
                parts = [App("unpack", (val, Const(i))) for i in range(n)]
            cs = [cfg]
            for e, p in zip(tgt.elts, parts):
                ncs = []
                for c in cs:
                    ncs.extend(self.assign(e.value if isinstance(e, ast.Starred) else e, p, c, out))
                cs = ncs
            return cs
        if isinstance(tgt, ast.Attribute):
            res = []
            for c, base in self.ev(tgt.value, cfg, out):
                if isinstance(base, ObjV):
                    c = c.hset(f"{base.oid}.{tgt.attr}", val)
                    if getattr(self.policy, "live_lists", False):
                        # an assignment binds the attribute to another object: loops still walking the old object keep it (see _loop_live)
                        g = c.heap.get(f"$gen:{base.oid}.{tgt.attr}")
                        c = c.hset(f"$gen:{base.oid}.{tgt.attr}", Const((g.v if isinstance(g, Const) else 0) + 1))
                elif isinstance(base, ClassV):
                    c = c.hset(f"{base.name}.{tgt.attr}", val)
                elif isinstance(base, NodeV):
                    c = self.store_back(tgt, val, c)
                c = self.policy.on_store_attr(self, base, tgt.attr, val, c, tgt)
                res.append(c)
            return res
        if isinstance(tgt, ast.Subscript):
            res = []
            for c, base in self.ev(tgt.value, cfg, out):
                for c1, idx in self.ev(tgt.slice, c, out):
                    c2 = c1.emit(("setitem", base, idx, val)) if getattr(self.policy, "emit_setitem", True) else c1
                    if isinstance(base, DictV):
                        nb = base.set(idx, val)
                        c2 = self.store_back(tgt.value, nb, c2)
                        if base.origin is not None:
                            c2 = c2.hset(base.origin, DictV(nb.items))
                    elif isinstance(base, ListV) and base.kind == "list" and isinstance(idx, Const) and isinstance(idx.v, int) \
                            and -len(base.items) <= idx.v < len(base.items):
                        items = list(base.items)
                        items[idx.v] = val
                        c2 = self.store_back(tgt.value, ListV(items, "list"), c2)
                    res.append(c2)
            return res
        if isinstance(tgt, ast.Starred):
            return self.assign(tgt.value, val, cfg, out)
        raise AnalysisError(f"absint: unsupported assignment target {tgt.__class__.__name__}")

    def store_back(self, target, newv, cfg):
        """Rebind the container denoted by ``target`` (a Name or an attribute of a known object)."""
        if isinstance(target, ast.Name):
            return cfg.set(target.id, newv) if target.id in cfg.env else cfg
        if isinstance(target, ast.Attribute):
            sub = Out()
            bases = self.ev(target.value, cfg, sub)
            if len(bases) == 1 and isinstance(bases[0][1], ObjV):
                return cfg.hset(f"{bases[0][1].oid}.{target.attr}", newv)
            if len(bases) == 1 and isinstance(bases[0][1], ClassV):
                return cfg.hset(f"{bases[0][1].name}.{target.attr}", newv)
            if len(bases) == 1 and isinstance(bases[0][1], NodeV):
                b = bases[0][1]
                nb = NodeV(b.cls, {**b.fields, target.attr: newv}, b.path)
                return self.store_back(target.value, nb, cfg)
        if isinstance(target, ast.Call) and isinstance(target.func, ast.Attribute) and target.func.attr == "setdefault" and target.args:
            # `d.setdefault(k, {})[q] = v`: the container that was changed is d[k]
            return self.store_back(ast.copy_location(ast.Subscript(value=target.func.value, slice=target.args[0], ctx=ast.Store()), target), newv, cfg)
        if isinstance(target, ast.Subscript):
            # nested container: rebuild the outer container with the new inner value
            sub = Out()
            bases = self.ev(target.value, cfg, sub)
            idxs = self.ev(target.slice, cfg, sub)
            if len(bases) == 1 and len(idxs) == 1 and isinstance(bases[0][1], DictV):
                outer = bases[0][1].set(idxs[0][1], newv)
                c2 = self.store_back(target.value, outer, cfg)
                if outer.origin is not None:
                    c2 = c2.hset(outer.origin, DictV(outer.items))
                return c2
        return cfg

    # ------------------------------------------------------------------
    # tests
    # ------------------------------------------------------------------
    def test(self, node, cfg, out):
        """Evaluate ``node`` as a branch condition -> list[(cfg, bool)]."""
        if isinstance(node, ast.BoolOp):
            is_and = isinstance(node.op, ast.And)
            res = []
            cur = [cfg]
            for i, sub in enumerate(node.values):
                nxt = []
                for c in cur:
                    for c1, t in self.test(sub, c, out):
                        if t == is_and:
                            nxt.append(c1)
                        else:
                            res.append((c1, t))
                cur = nxt
            res.extend((c, is_and) for c in cur)
            return res
        if isinstance(node, ast.UnaryOp) and isinstance(node.op, ast.Not):
            return [(c, not t) for c, t in self.test(node.operand, cfg, out)]
        if isinstance(node, ast.Compare) and len(node.ops) == 1 and isinstance(node.ops[0], (ast.Is, ast.IsNot, ast.Eq, ast.NotEq)):
            # `bool(x) is <True/False>` is the truth test of x with a polarity
            res = []
            neg = isinstance(node.ops[0], (ast.IsNot, ast.NotEq))
            handled = True
            for c, (l, r) in [(c, tuple(vs)) for c, vs in self.ev_list([node.left, node.comparators[0]], cfg, out)]:
                pair = None
                for a, b, an in ((l, r, node.left), (r, l, node.comparators[0])):
                    if isinstance(a, App) and a.op == "bool" and len(a.args) == 1 and isinstance(b, Const) and isinstance(b.v, bool):
                        inner = an.args[0] if isinstance(an, ast.Call) and len(an.args) == 1 else an
                        pair = (inner, a.args[0], b.v)
                        break
                if pair is None:
                    handled = False
                    break
                for c1, t in self.truth(pair[0], pair[1], c):
                    res.append((c1, (t == pair[2]) != neg))
            if handled:
                return res
        res = []
        for c, v in self.ev(node, cfg, out):
            res.extend(self.truth(node, v, c))
        return res

    def truth(self, node, v, cfg):
        t = self.static_truth(v, cfg)
        if t is None:
            t = self.policy.truth(self, v, cfg)
        if t is not None:
            return [(cfg, bool(t))]
        if not self.policy.record_atoms or not self.policy.atom_relevant(self, node, v, cfg):
            return [(cfg, True), (cfg, False)]
        atom = self.policy.atom_key(self, node, v, cfg)
        d = cfg.decided(atom)
        if d is not None:
            return [(cfg, d)]
        return [(cfg.assuming(atom, True), True), (cfg.assuming(atom, False), False)]

    def static_truth(self, v, cfg):
        if isinstance(v, Const):
            return bool(v.v)
        if isinstance(v, ListV):
            return len(v.items) > 0
        if isinstance(v, DictV):
            return len(v.items) > 0
        if isinstance(v, (NodeV, ObjV, FuncV, ClassV, ExcV)):
            return True
        if isinstance(v, App) and v.op == "not":
            t = self.static_truth(v.args[0], cfg)
            return None if t is None else (not t)
        return None

    # ------------------------------------------------------------------
    # expressions
    # ------------------------------------------------------------------
    def ev(self, node, cfg, out):
        """Evaluate expression -> list[(cfg, AV)]; exceptional configurations go to ``out``."""
        m = getattr(self, "e_" + node.__class__.__name__, None)
        if m is None:
            raise AnalysisError(f"absint: unsupported expression {node.__class__.__name__} at line {getattr(node, 'lineno', 0)}")
        return m(node, cfg, out)

    def ev_list(self, nodes, cfg, out):
        """Evaluate nodes left to right -> list[(cfg, [AV])]."""
        cur = [(cfg, [])]
        for n in nodes:
            nxt = []
            for c, vals in cur:
                if isinstance(n, ast.Starred):
                    for c1, v in self.ev(n.value, c, out):
                        if isinstance(v, ListV):
                            nxt.append((c1, vals + list(v.items)))
                        else:
                            nxt.append((c1, vals + [App("star", (v,))]))
                else:
                    for c1, v in self.ev(n, c, out):
                        nxt.append((c1, vals + [v]))
            cur = nxt
        return cur

    def e_Constant(self, node, cfg, out):
        return [(cfg, Const(node.value))]

    def e_Name(self, node, cfg, out):
        if node.id in cfg.env:
            return [(cfg, cfg.env[node.id])]
        v = self.policy.global_name(node.id, self)
        if v is None:
            v = self.builtin_name(node.id)
        return [(cfg, v)]

    BUILTIN_CLASSES = {
        "Exception", "BaseException", "TypeError", "ValueError", "NameError", "SyntaxError", "KeyError",
        "AttributeError", "NotImplementedError", "RuntimeError", "AssertionError", "ModuleNotFoundError",
        "ImportError", "EOFError", "UnboundLocalError", "TimeoutError", "ConnectionResetError",
        "str", "int", "float", "bool", "list", "dict", "set", "tuple", "type", "object", "bytes", "frozenset",
    }

    def builtin_name(self, name):
        if name in self.BUILTIN_CLASSES:
            return ClassV(name)
        return Sym(("g", name))

    def e_Attribute(self, node, cfg, out):
        res = []
        for c, base in self.ev(node.value, cfg, out):
            res.append((c, self.getattr(base, node.attr, c, node)))
        return res

    def getattr(self, base, attr, cfg, node=None):
        v = self.policy.attr(self, base, attr, cfg)
        if v is not None:
            return v
        if isinstance(base, NodeV):
            if attr == "__class__":
                return ClassV(base.cls)
            if attr in base.fields:
                return base.fields[attr]
            return Sym(("nodeattr", base.path, attr))
        if isinstance(base, ClassV):
            if attr == "__name__":
                return Const(base.name)
            if f"{base.name}.{attr}" in cfg.heap:
                v = cfg.heap[f"{base.name}.{attr}"]
                if isinstance(v, DictV) and self.policy.track_aliases:
                    return DictV(v.items, f"{base.name}.{attr}")
                return v
            f = self.lookup_method(base.name, attr)
            if f is not None:
                return FuncV(f, recv=base, name=f"{base.name}.{attr}")
            return Sym(("clsattr", base.name, attr))
        if isinstance(base, ObjV):
            key = f"{base.oid}.{attr}"
            if key in cfg.heap:
                v = cfg.heap[key]
                if isinstance(v, DictV) and self.policy.track_aliases:
                    return DictV(v.items, key)
                return v
            f = self.lookup_method(base.cls, attr)
            if f is not None:
                return FuncV(f, recv=base, name=f"{base.cls}.{attr}")
            return Sym(("attr", base.oid, attr))
        if isinstance(base, Sym) and base.tag and base.tag[0] == "g":
            if base.tag[1] == "ast" and isinstance(getattr(ast, attr, None), type):
                return ClassV(attr)
            return Sym(("g", f"{base.tag[1]}.{attr}"))
        if isinstance(base, ExcV):
            return Sym(("excattr", attr))
        if isinstance(base, Const) and isinstance(base.v, _DATA_TYPES) and hasattr(base.v, attr) and not callable(getattr(base.v, attr)):
            return Const(getattr(base.v, attr))
        if isinstance(base, DictV) or isinstance(base, ListV) or isinstance(base, Const):
            return App("boundmethod", (base, Const(attr)))
        return App("getattr", (base, Const(attr)))

    def lookup_method(self, clsname, attr):
        prog = self.program
        if prog is None:
            return None
        seen = set()
        todo = [clsname]
        while todo:
            cn = todo.pop(0)
            if cn in seen or cn not in prog.classes:
                continue
            seen.add(cn)
            cnode = prog.classes[cn].node
            for s in cnode.body:
                if isinstance(s, (ast.FunctionDef, ast.AsyncFunctionDef)) and s.name == attr:
                    return s
            for b in cnode.bases:
                d = dotted(b)
                if d:
                    todo.append(d.split(".")[-1])
        return None

    def e_Subscript(self, node, cfg, out):
        res = []
        for c, base in self.ev(node.value, cfg, out):
            for c1, idx in self.ev(node.slice, c, out):
                v = self.getitem(base, idx)
                if getattr(self.policy, "emit_getitem", False) and isinstance(v, App) and v.op == "getitem" and v.args[0] is base:
                    c1 = c1.emit(("getitem", base, idx))
                res.append((c1, v))
        return res

    def getitem(self, base, idx):
        if isinstance(base, ListV):
            if isinstance(idx, Const) and isinstance(idx.v, int):
                try:
                    return base.items[idx.v]
                except IndexError:
                    return Sym(("indexerror",))
            if isinstance(idx, App) and idx.op == "slice" and all(isinstance(a, Const) for a in idx.args):
                lo, hi, st = (a.v for a in idx.args)
                return ListV(base.items[lo:hi:st], base.kind)
        if isinstance(base, DictV):
            v = base.get(idx)
            if v is not None:
                if isinstance(v, ListV) and base.origin is not None and v.kind in ("list", "set"):
                    v = ListV(v.items, v.kind, (base.origin, idx))  # the element itself, not a copy
                return v
        if isinstance(base, Const) and isinstance(idx, Const):
            try:
                return Const(base.v[idx.v])
            except Exception:  # noqa
                pass
        if isinstance(base, Const) and isinstance(base.v, (str, bytes)) and isinstance(idx, App) and idx.op == "slice" \
                and all(isinstance(a, Const) for a in idx.args):
            lo, hi, st = (a.v for a in idx.args)
            return Const(base.v[lo:hi:st])
        return App("getitem", (base, idx))

    def e_Slice(self, node, cfg, out):
        res = []
        for c, vals in self.ev_list([n if n is not None else ast.Constant(None) for n in (node.lower, node.upper, node.step)], cfg, out):
            res.append((c, App("slice", vals)))
        return res

    def e_Tuple(self, node, cfg, out):
        return [(c, ListV(vals, "tuple")) for c, vals in self.ev_list(node.elts, cfg, out)]

    def e_List(self, node, cfg, out):
        return [(c, ListV(vals, "list")) for c, vals in self.ev_list(node.elts, cfg, out)]

    def e_Set(self, node, cfg, out):
        return [(c, ListV(vals, "set")) for c, vals in self.ev_list(node.elts, cfg, out)]

    emit_hash = False  # reference semantics: record when a display hashes its keys (BUILD_MAP: after the operands of a run of plain pairs)

    def e_Dict(self, node, cfg, out):
        cur = [(cfg, [], [])]
        for k, v in zip(node.keys, node.values):
            nxt = []
            for c, items, pend in cur:
                if k is None:
                    for pk in pend:
                        c = c.emit(("hash", pk))
                    for c1, vv in self.ev(v, c, out):
                        if isinstance(vv, DictV):
                            nxt.append((c1, items + list(vv.items), []))
                        else:
                            nxt.append((c1, items + [(App("starstar", (vv,)), vv)], []))
                else:
                    for c1, kv in self.ev(k, c, out):
                        for c2, vv in self.ev(v, c1, out):
                            if isinstance(v, ast.Name) and isinstance(vv, ListV) and vv.kind in ("list", "set") and vv.origin is None and v.id in c2.env:
                                vv = ListV(vv.items, vv.kind, ("$var", v.id))  # the table holds the very list/set the local names
                            nxt.append((c2, items + [(kv, vv)], pend + [kv] if self.emit_hash else pend))
            cur = nxt
        res = []
        for c, items, pend in cur:
            for pk in pend:
                c = c.emit(("hash", pk))
            res.append((c, DictV(items)))
        return res

    def e_JoinedStr(self, node, cfg, out):
        cur = [(cfg, [])]
        for part in node.values:
            nxt = []
            for c, vals in cur:
                if isinstance(part, ast.Constant):
                    nxt.append((c, vals + [Const(part.value)]))
                else:
                    for c1, v in self.ev(part.value, c, out):
                        if part.format_spec is not None:
                            for c2, fs in self.ev(part.format_spec, c1, out):
                                nxt.append((c2, vals + [App("format", (v, fs, Const(part.conversion)))]))
                        elif not isinstance(v, Const):
                            nxt.append((c1, vals + [App("format", (v, NONE, Const(part.conversion)))]))
                        else:
                            nxt.append((c1, vals + [v]))
            cur = nxt
        res = []
        for c, vals in cur:
            if all(isinstance(v, Const) for v in vals):
                res.append((c, Const("".join(str(v.v) for v in vals))))
            else:
                res.append((c, App("fstr", vals)))
        return res

    def e_FormattedValue(self, node, cfg, out):
        return self.ev(node.value, cfg, out)

    def e_NamedExpr(self, node, cfg, out):
        res = []
        for c, v in self.ev(node.value, cfg, out):
            for c1 in self.assign(node.target, v, c, out):
                res.append((c1, v))
        return res

    def e_Starred(self, node, cfg, out):
        return [(c, App("star", (v,))) for c, v in self.ev(node.value, cfg, out)]

    def e_Lambda(self, node, cfg, out):
        return [(cfg, FuncV(node, closure=self._capture(node, cfg), name="<lambda>"))]

    def e_IfExp(self, node, cfg, out):
        res = []
        for c, t in self.test(node.test, cfg, out):
            res.extend(self.ev(node.body if t else node.orelse, c, out))
        return res

    def e_BoolOp(self, node, cfg, out):
        is_and = isinstance(node.op, ast.And)
        res = []
        cur = [cfg]
        last = len(node.values) - 1
        for i, sub in enumerate(node.values):
            nxt = []
            for c in cur:
                for c1, v in self.ev(sub, c, out):
                    if i == last:
                        res.append((c1, v))
                        continue
                    for c2, t in self.truth(sub, v, c1):
                        if t == is_and:
                            nxt.append(c2)
                        else:
                            res.append((c2, v))
            cur = nxt
        return res

    def e_UnaryOp(self, node, cfg, out):
        res = []
        for c, v in self.ev(node.operand, cfg, out):
            res.append((c, self.unop(node.op, v)))
        return res

    def unop(self, op, v):
        name = UN_NAME[type(op)]
        if isinstance(v, Const):
            try:
                if name == "not":
                    return Const(not v.v)
                if name == "usub":
                    return Const(-v.v)
                if name == "uadd":
                    return Const(+v.v)
                if name == "invert":
                    return Const(~v.v)
            except Exception:  # noqa
                pass
        if name == "not":
            t = self.static_truth(v, None)
            if t is not None:
                return Const(not t)
        return App(name, (v,))

    def e_BinOp(self, node, cfg, out):
        res = []
        for c, l in self.ev(node.left, cfg, out):
            for c1, r in self.ev(node.right, c, out):
                if isinstance(l, Const) and isinstance(r, Const) and (l.v is None or r.v is None) and type(node.op) in (ast.Add, ast.Sub, ast.Mult, ast.Div, ast.FloorDiv, ast.Mod):
                    # arithmetic on None (with a constant): TypeError, as in python
                    out.add("raise", c1.set("$exc", ExcV("TypeError", f"unsupported operand type(s) for {BIN_NAME[type(node.op)]}: NoneType (line {getattr(node, 'lineno', '?')})")))
                    continue
                res.append((c1, self.binop(node.op, l, r)))
        return res

    def binop(self, op, l, r, inplace=False):
        name = BIN_NAME[type(op)]
        if isinstance(l, Const) and isinstance(r, Const):
            try:
                v = _BINFN[name](l.v, r.v)
                return Const(bytes(v) if isinstance(v, bytearray) else v)
            except Exception:  # noqa
                pass
        if name == "add" and isinstance(l, ListV) and isinstance(r, ListV):
            return ListV(l.items + r.items, l.kind)
        if name in ("bitor", "bitand", "sub", "bitxor") and isinstance(l, ListV) and isinstance(r, ListV) and "keys" in (l.kind, r.kind):
            l, r = ListV(l.items, "set"), ListV(r.items, "set")
        if name in ("bitor", "bitand", "sub", "bitxor") and isinstance(l, ListV) and l.kind == "set":
            other = r
            if isinstance(other, Const) and isinstance(other.v, (frozenset, set)):
                other = ListV([Const(x) for x in sorted(other.v, key=repr)], "set")
            if isinstance(other, ListV):
                a, b = list(dict.fromkeys(l.items)), list(dict.fromkeys(other.items))
                if name == "bitor":
                    res = a + [x for x in b if x not in a]
                elif name == "bitand":
                    res = [x for x in a if x in b]
                elif name == "sub":
                    res = [x for x in a if x not in b]
                else:
                    res = [x for x in a if x not in b] + [x for x in b if x not in a]
                return ListV(res, "set")
        if name == "add" and isinstance(l, ListV) and l.kind == "list" and inplace and not isinstance(r, (ListV, Const)):
            return ListV(l.items + (App("star", (r,)),), l.kind)
        return App(("i" if inplace else "") + name, (l, r))

    def e_Compare(self, node, cfg, out):
        # evaluate operands left to right with short circuit on decided-false links
        res = []
        for c, left in self.ev(node.left, cfg, out):
            self._cmp_chain(node, 0, left, c, out, res, [])
        return res

    def _cmp_chain(self, node, i, left, cfg, out, res, acc):
        op = node.ops[i]
        for c, right in self.ev(node.comparators[i], cfg, out):
            v = self.compare(op, left, right, c)
            last = i == len(node.ops) - 1
            if last:
                if acc:
                    allv = acc + [v]
                    if all(isinstance(x, Const) for x in allv):
                        res.append((c, Const(all(x.v for x in allv))))
                    else:
                        res.append((c, App("and", allv)))
                else:
                    res.append((c, v))
            else:
                if isinstance(v, Const) and not v.v:
                    res.append((c, FALSE))
                else:
                    self._cmp_chain(node, i + 1, right, c, out, res, acc + [v])

    def compare(self, op, l, r, cfg):
        name = CMP_NAME[type(op)]
        if name in ("is", "isnot"):
            d = self.identity(l, r)
            if d is not None:
                return Const(d if name == "is" else not d)
        if name in ("eq", "noteq"):
            d = self.equal(l, r)
            if d is not None:
                return Const(d if name == "eq" else not d)
        if name in ("in", "notin"):
            d = self.member(l, r)
            if d is not None:
                return Const(d if name == "in" else not d)
        if isinstance(l, Const) and isinstance(r, Const):
            try:
                return Const(_CMPFN[name](l.v, r.v))
            except Exception:  # noqa
                pass
        if name in ("lt", "lte", "gt", "gte") and isinstance(l, ListV) and isinstance(r, ListV) and l.kind == r.kind and l.kind in ("tuple", "list") \
                and all(isinstance(x, Const) for x in l.items + r.items):
            # ordering of sequences of constants (python's lexicographic order)
            try:
                return Const(_CMPFN[name](tuple(x.v for x in l.items), tuple(x.v for x in r.items)))
            except Exception:  # noqa
                pass
        return App(name, (l, r))

    def identity(self, l, r):
        concrete = (Const, NodeV, ListV, DictV, ObjV, FuncV, ClassV, ExcV)  # (an exception object bound by `except ... as e`)
        if isinstance(l, Sym) and isinstance(r, Sym) and l.tag and r.tag and l.tag[0] == "g" and r.tag[0] == "g":
            ln, rn = l.tag[1], r.tag[1]
            if "." in ln and "." in rn and ln.rsplit(".", 1)[0] == rn.rsplit(".", 1)[0] and ln.rsplit(".", 1)[0][:1].isupper():
                return ln == rn  # members of one enumeration class
        if isinstance(l, Sym) and isinstance(r, Sym) and l.tag and r.tag and l.tag[0] == "object" and r.tag[0] == "object":
            return l.tag == r.tag
        if isinstance(l, Sym) and isinstance(r, Sym) and l.tag and r.tag and l.tag[0] == "clsattr" and r.tag[0] == "clsattr" \
                and l.tag[1] == r.tag[1] and l.tag[2].isupper() and r.tag[2].isupper():
            return l.tag[2] == r.tag[2]  # members of one enumeration class
        for a, b in ((l, r), (r, l)):
            if isinstance(a, Const) and a.v is None and isinstance(b, App) and b.op in NOT_NONE_OPS:
                return False  # results of str(), repr(), len(), constructors ... are never None
            if isinstance(a, Const) and a.v is None and isinstance(b, Sym) and b.tag and b.tag[0] == "g":
                return False  # an imported module attribute is not None
            if isinstance(a, Const) and a.v is None and isinstance(b, Sym) and b.tag and b.tag[0] == "ver" and b.tag[-1] is True:
                return False  # widened local known to hold a freshly built container/object
        if isinstance(l, Const) and isinstance(r, Const):
            if l.v is None or r.v is None or isinstance(l.v, bool) or isinstance(r.v, bool):
                return l.v is r.v
            return l == r
        if isinstance(l, DictV) and isinstance(r, DictV) and l.origin is not None and r.origin is not None:
            if l.origin == r.origin:
                return True  # two reads of the same heap slot
            if getattr(self.policy, "distinct_slots", False):
                return False  # scenario states that different slots hold different dictionaries
        if isinstance(l, concrete) and isinstance(r, concrete):
            if type(l) is not type(r):
                return False
            if isinstance(l, (NodeV, ObjV, ClassV, FuncV)):
                return l == r
            return None
        return None

    def equal(self, l, r):
        h = self.policy.equal_hook(l, r)
        if h is not None:
            return h
        if isinstance(l, Sym) and isinstance(r, Sym) and l.tag and r.tag and l.tag[0] == "object" and r.tag[0] == "object":
            return l.tag == r.tag  # distinct opaque objects of a scenario
        if isinstance(l, Sym) and isinstance(r, Sym) and l.tag and r.tag and l.tag[0] == r.tag[0] and l.tag[0] in ("clsattr", "g"):
            d = self.identity(l, r)
            if d is not None:
                return d  # members of one enumeration class: equal exactly when identical
        if isinstance(l, Const) and isinstance(r, Const):
            try:
                return l.v == r.v
            except Exception:  # noqa
                return None
        if isinstance(l, (NodeV, ObjV, ClassV)) and isinstance(r, (NodeV, ObjV, ClassV)):
            return l == r
        if isinstance(l, FuncV) and isinstance(r, FuncV):
            return l == r  # functions / bound methods: same function object bound to the same receiver
        if isinstance(l, Const) and isinstance(r, (NodeV, ObjV, ClassV, ListV, DictV)) and l.v is None:
            return False
        if isinstance(r, Const) and isinstance(l, (NodeV, ObjV, ClassV, ListV, DictV)) and r.v is None:
            return False
        if l == r and isinstance(l, (ListV, DictV)):
            return True
        if isinstance(l, (ListV, DictV)) and isinstance(r, (ListV, DictV)) and _concrete(l) and _concrete(r):
            return _plain(l) == _plain(r)
        if isinstance(l, ListV) and isinstance(r, ListV) and l.kind == r.kind and l.kind in ("list", "tuple"):
            # sequences of known objects / constants: element-wise (objects of the scenario compare by identity)
            if len(l.items) != len(r.items):
                if all(isinstance(x, (Const, ObjV, ClassV, ListV)) for x in l.items + r.items):
                    return False
                return None
            ds = [self.equal(a, b) for a, b in zip(l.items, r.items)]
            if any(d is False for d in ds):
                return False
            if all(d is True for d in ds):
                return True
        return None

    def member(self, l, r):
        if isinstance(r, Const) and isinstance(l, Const):
            try:
                return l.v in r.v
            except Exception:  # noqa
                return None
        if isinstance(r, ListV) and all(isinstance(x, Const) for x in r.items) and isinstance(l, Const):
            return l in r.items
        if isinstance(r, ListV) and l in r.items:
            return True  # the very same abstract value is an element
        if isinstance(r, ListV) and not r.items:
            return False
        if isinstance(r, ListV) and all(isinstance(x, ClassV) for x in r.items) and isinstance(l, ClassV):
            return l in r.items  # type(x) in [bool, int]
        if isinstance(r, ListV) and r.items and all(self.identity(l, x) is not None for x in r.items):
            return any(self.identity(l, x) for x in r.items)  # members of one enumeration
        if isinstance(r, DictV) and isinstance(l, Const) and all(isinstance(k, Const) for k, _ in r.items):
            return any(k == l for k, _ in r.items)
        if isinstance(r, DictV) and isinstance(l, (Const, ObjV, ClassV)) and all(isinstance(k, (Const, ObjV, ClassV)) for k, _ in r.items):
            return any(k == l for k, _ in r.items)  # distinct known objects / constants as keys
        return None

    def e_Await(self, node, cfg, out):
        res = []
        for c, v in self.ev(node.value, cfg, out):
            for ex in self.policy.await_raises(self, node, c):
                out.add("raise", c.set("$exc", ExcV(ex, f"await L{node.lineno}")))
            c = self.policy.on_await(self, node, c)  # the await completed
            res.append((c, v))
        return res

    # -- comprehensions -----------------------------------------------------
    def _comp(self, node, cfg, out, elt_fn, kind):
        """Evaluate a comprehension; concrete iterables are unrolled, others yield one symbolic element."""
        results = []

        def rec(gens, c, acc, saved):
            if not gens:
                for c1, v in elt_fn(c):
                    yield c1, acc + [v]
                return
            g = gens[0]
            for c1, it in self.ev(g.iter, c, out):
                items = self.concrete_iter(it)
                symbolic = items is None
                if symbolic:
                    items = [Sym(("item", self._tag(it), norm(g.target)))]
                cur = [(c1, acc)]
                for item in items:
                    nxt = []
                    for c2, acc2 in cur:
                        for c3 in self.assign(g.target, item, c2, out):
                            conds = [(c3, True)]
                            for cond in g.ifs:
                                nconds = []
                                for c4, ok in conds:
                                    if not ok:
                                        nconds.append((c4, False))
                                        continue
                                    nconds.extend(self.test(cond, c4, out))
                                conds = nconds
                            for c4, ok in conds:
                                if ok:
                                    nxt.extend(rec(gens[1:], c4, acc2, saved))
                                else:
                                    nxt.append((c4, acc2))
                    cur = nxt
                for c2, acc2 in cur:
                    if symbolic:
                        yield c2, acc2 + [App("more", ())]
                    else:
                        yield c2, acc2

        for c, acc in rec(node.generators, cfg, [], None):
            # comprehension variables do not leak
            env = dict(c.env)
            for g in node.generators:
                for n in ast.walk(g.target):
                    if isinstance(n, ast.Name):
                        if n.id in cfg.env:
                            env[n.id] = cfg.env[n.id]
                        else:
                            env.pop(n.id, None)
            results.append((c.with_env(env), acc))
        return results

    def e_ListComp(self, node, cfg, out):
        return [(c, ListV(acc, "list")) for c, acc in self._comp(node, cfg, out, lambda c: self.ev(node.elt, c, out), "list")]

    def e_SetComp(self, node, cfg, out):
        return [(c, ListV(acc, "set")) for c, acc in self._comp(node, cfg, out, lambda c: self.ev(node.elt, c, out), "set")]

    def e_GeneratorExp(self, node, cfg, out):
        return [(c, ListV(acc, "gen")) for c, acc in self._comp(node, cfg, out, lambda c: self.ev(node.elt, c, out), "gen")]

    def e_DictComp(self, node, cfg, out):
        def elt(c):
            r = []
            for c1, k in self.ev(node.key, c, out):
                for c2, v in self.ev(node.value, c1, out):
                    r.append((c2.emit(("hash", k)) if self.emit_hash else c2, (k, v)))
            return r

        res = []
        for c, acc in self._comp(node, cfg, out, elt, "dict"):
            items = [a for a in acc if isinstance(a, tuple)]
            d = DictV(())
            for k, v in items:
                d = d.set(k, v)
            if any(not isinstance(a, tuple) for a in acc):
                d = d.set(App("more", ()), App("more", ()))
            res.append((c, d))
        return res

    # -- calls ----------------------------------------------------------------
    def e_Call(self, node, cfg, out):
        res = []
        fname = dotted(node.func)
        if fname is None and isinstance(node.func, ast.Attribute) and isinstance(node.func.value, ast.Subscript) and dotted(node.func.value.value):
            fname = ast.unparse(node.func)  # method of a container element: `cmd[1].cancel`
        for c, fval in self.ev(node.func, cfg, out):
            for c1, args in self.ev_list(node.args, c, out):
                cur = [(c1, {})]
                for kw in node.keywords:
                    nxt = []
                    for c2, kws in cur:
                        for c3, v in self.ev(kw.value, c2, out):
                            k2 = dict(kws)
                            if kw.arg is None:
                                if isinstance(v, DictV):
                                    for k, vv in v.items:
                                        if isinstance(k, Const) and isinstance(k.v, str):
                                            k2[k.v] = vv
                                        else:
                                            k2[f"**{len(k2)}"] = vv
                                else:
                                    k2[f"**{len(k2)}"] = v
                            else:
                                k2[kw.arg] = v
                            nxt.append((c3, k2))
                    cur = nxt
                for c2, kws in cur:
                    res.extend(self.call(node, fname, fval, args, kws, c2, out))
        return res

    def held_name(self, node, fname, fval, cfg):
        """A builtin or a module function held in a local (`convert = TABLE.get(code)`): the call is the call of what it holds."""
        if isinstance(node.func, ast.Name) and node.func.id in cfg.env:
            if isinstance(fval, Sym) and fval.tag and fval.tag[0] == "g" and isinstance(fval.tag[1], str):
                return fval.tag[1]
            if isinstance(fval, ClassV) and fval.name in self.BUILTIN_CLASSES:
                return fval.name
        return fname

    def call(self, node, fname, fval, args, kwargs, cfg, out):
        fname = self.held_name(node, fname, fval, cfg)
        r = self.policy.call(self, node, fname, fval, args, kwargs, cfg, out)
        if r is not None:
            return r
        r = self.builtin_call(node, fname, fval, args, kwargs, cfg, out)
        if r is not None:
            return r
        target = fval if isinstance(fval, FuncV) else self.policy.resolve(self, fname, fval, cfg)
        if isinstance(target, FuncV) and self.depth < self.policy.inline_depth and self.can_inline(target):
            return self.inline(node, target, args, kwargs, cfg, out)
        # unknown call
        for ex in self.policy.call_raises(self, node, fname, fval, cfg):
            out.add("raise", cfg.set("$exc", ExcV(ex, f"call {fname or '?'} L{node.lineno}")))
        if isinstance(fval, ClassV):
            return [(cfg, App("new", (fval, *args)))]
        return [(cfg, App("call", (fval if not isinstance(fval, Sym) else Const(fname or repr(fval)), *args,
                                   *[App("kw", (Const(k), v)) for k, v in sorted(kwargs.items())])))]

    def can_inline(self, f):
        return sum(1 for x in self.call_stack if x is f.node) < 7

    def inline(self, node, f: FuncV, args, kwargs, cfg, out):
        fn = f.node
        params = fn.args
        env = {}
        pos = list(params.posonlyargs) + list(params.args)
        args = list(args)
        if f.recv is not None and pos and not _is_static(fn):
            args = [f.recv] + args
        if f.closure:
            if isinstance(f.closure, dict):
                env.update(f.closure)  # what it captured where it was defined
            env.update(cfg.env)  # nested function: sees enclosing locals (read-only approximation)
        ndef = len(params.defaults)
        for i, p in enumerate(pos):
            if i < len(args):
                env[p.arg] = args[i]
            elif p.arg in kwargs:
                env[p.arg] = kwargs[p.arg]
            else:
                j = i - (len(pos) - ndef)
                if j >= 0:
                    d = params.defaults[j]
                    env[p.arg] = Const(d.value) if isinstance(d, ast.Constant) else Sym(("default", p.arg))
                else:
                    env[p.arg] = Sym(("missing", p.arg))
        if params.vararg:
            env[params.vararg.arg] = ListV(args[len(pos):], "tuple")
        for p, d in zip(params.kwonlyargs, params.kw_defaults):
            if p.arg in kwargs:
                env[p.arg] = kwargs[p.arg]
            elif d is not None:
                env[p.arg] = Const(d.value) if isinstance(d, ast.Constant) else Sym(("default", p.arg))
        if params.kwarg:
            names = {p.arg for p in pos} | {p.arg for p in params.kwonlyargs}
            env[params.kwarg.arg] = DictV([(Const(k), v) for k, v in kwargs.items() if k not in names and not k.startswith("**")])
        caller_env = cfg.env
        bump = 0 if id(fn) in getattr(self.policy, "free_inline", ()) else 1  # an interpreted helper of the unit itself does not use up inlining depth
        self.depth += bump
        self.call_stack.append(fn)
        try:
            if isinstance(fn, ast.Lambda):
                sub = Out()
                res0 = self.ev(fn.body, cfg.with_env(env), sub)
                o = Out()
                o.merge(sub)
                for c, v in res0:
                    o.add("return", c.set("$ret", v))
            else:
                o = self.run_function(fn, env, cfg)
        finally:
            self.call_stack.pop()
            self.depth -= bump
        wb = self._writeback_params(node, fn, pos[1:] if (f.recv is not None and pos and not _is_static(fn)) else pos)
        res = []
        for c in o.get("return"):
            v = c.env.get("$ret", NONE)
            env2 = caller_env
            attr_wb = []
            if wb:
                env2 = dict(caller_env)
                for pname, target in wb:
                    if pname in c.env and isinstance(c.env[pname], (ListV, DictV)):
                        if isinstance(target, ast.Name):
                            if target.id in env2:
                                env2[target.id] = c.env[pname]
                        else:
                            attr_wb.append((target, c.env[pname]))
            c2 = c.with_env(env2)
            for target, val in attr_wb:
                c2 = self.store_back(target, val, c2)
            res.append((c2, v))
        for c in o.get("raise"):
            exc = c.env.get("$exc")
            out.add("raise", c.with_env(caller_env).set("$exc", exc))
        return res

    def _writeback_params(self, call, fn, pos):
        """Containers passed by name and mutated in place by the callee are visible to the caller (by-reference emulation)."""
        if not getattr(self.policy, "param_writeback", False) or isinstance(fn, ast.Lambda) or not isinstance(call, ast.Call):
            return []
        rebound = {t.id for n in ast.walk(fn) for t in (n.targets if isinstance(n, ast.Assign) else []) if isinstance(t, ast.Name)}
        pairs = []
        for p, a in zip(pos, call.args):
            if isinstance(a, (ast.Name, ast.Attribute)) and p.arg not in rebound:
                pairs.append((p.arg, a))
        names = {p.arg for p in pos} | {p.arg for p in fn.args.kwonlyargs}
        for kw in call.keywords:
            if kw.arg in names and isinstance(kw.value, (ast.Name, ast.Attribute)) and kw.arg not in rebound:
                pairs.append((kw.arg, kw.value))
        return pairs

    # -- builtins over abstract values -------------------------------------
    def builtin_call(self, node, fname, fval, args, kwargs, cfg, out):
        # methods on concrete containers / constants
        if isinstance(fval, App) and fval.op == "boundmethod":
            base, meth = fval.args[0], fval.args[1].v
            r = self.container_method(node, base, meth, args, kwargs, cfg)
            if r is not None:
                return r
        if fname in ("copy.deepcopy", "deepcopy") and len(args) == 1 and isinstance(args[0], (DictV, ListV, Const)):
            return [(cfg, _deep_fresh(args[0]))]
        if fname == "isinstance" and len(args) == 2:
            d = self.isinstance(args[0], args[1], cfg)
            if d is not None:
                return [(cfg, Const(d))]
            atom = ("isinstance", args[0], args[1])
            return [(cfg, App("isinstance", (args[0], args[1])))]
        if fname == "vars" and len(args) == 1 and isinstance(args[0], ObjV):
            return [(cfg, self.getattr(args[0], "__dict__", cfg, node))]
        if fname == "ast.iter_child_nodes" and len(args) == 1 and isinstance(args[0], NodeV):
            kids = []
            cls = getattr(ast, args[0].cls, None)
            for fld in getattr(cls, "_fields", ()):
                v = args[0].fields.get(fld)
                if isinstance(v, NodeV):
                    kids.append(v)
                elif isinstance(v, ListV):
                    kids.extend(x for x in v.items if isinstance(x, NodeV))
            return [(cfg, ListV(kids, "list"))]
        if fname == "len" and len(args) == 1:
            if isinstance(args[0], (ListV, DictV)):
                if not any(isinstance(x, App) and x.op in ("star", "more") for x in args[0].items) \
                        if isinstance(args[0], ListV) else True:
                    return [(cfg, Const(len(args[0].items)))]
            if isinstance(args[0], Const) and hasattr(args[0].v, "__len__"):
                return [(cfg, Const(len(args[0].v)))]
            return [(cfg, App("len", (args[0],)))]
        if fname == "zip" and all(isinstance(a, ListV) for a in args):
            return [(cfg, ListV([ListV(t, "tuple") for t in zip(*[a.items for a in args])]))]
        if fname == "enumerate" and len(args) >= 1 and isinstance(args[0], ListV):
            start = args[1].v if len(args) > 1 and isinstance(args[1], Const) else (
                kwargs["start"].v if "start" in kwargs and isinstance(kwargs["start"], Const) else 0)
            return [(cfg, ListV([ListV((Const(i + start), x), "tuple") for i, x in enumerate(args[0].items)]))]
        if fname == "reversed" and len(args) == 1 and isinstance(args[0], ListV):
            return [(cfg, ListV(tuple(reversed(args[0].items)), args[0].kind))]
        if fname in ("list", "tuple", "set") and len(args) <= 1:
            if not args:
                return [(cfg, ListV((), fname))]
            if isinstance(args[0], ListV):
                return [(cfg, ListV(args[0].items, fname))]
            if isinstance(args[0], DictV) and not any(isinstance(k, App) for k, _ in args[0].items):
                return [(cfg, ListV([k for k, _ in args[0].items], fname))]  # iterating a dictionary gives its keys
            return None
        if fname == "dict" and not args:
            return [(cfg, DictV([(Const(k), v) for k, v in kwargs.items()]))]
        if fname == "dict" and len(args) == 1 and isinstance(args[0], ListV) and all(isinstance(x, ListV) and len(x.items) == 2 for x in args[0].items):
            d = DictV(())  # dict(<sequence of pairs>)
            for x in args[0].items:
                d = d.set(x.items[0], x.items[1])
            for k, v in kwargs.items():
                d = d.set(Const(k), v)
            return [(cfg, d)]
        if fname == "dict" and len(args) == 1 and isinstance(args[0], DictV):
            d = DictV(args[0].items)  # a fresh dictionary (no alias)
            for k, v in kwargs.items():
                d = d.set(Const(k), v)
            return [(cfg, d)]
        if fname == "range" and all(isinstance(a, Const) for a in args) and args:
            try:
                r = range(*[a.v for a in args])
                if len(r) <= 16:
                    return [(cfg, ListV([Const(i) for i in r]))]
            except Exception:  # noqa
                pass
        if fname in ("bytearray", "bytes") and len(args) == 1 and not kwargs:
            a = args[0]
            if isinstance(a, ListV) and all(isinstance(x, Const) and isinstance(x.v, int) for x in a.items):
                try:
                    return [(cfg, Const(bytes([x.v for x in a.items])))]
                except ValueError:
                    out.add("raise", cfg.set("$exc", ExcV("ValueError", f"bytearray L{node.lineno}")))
                    return []
            if isinstance(a, Const) and isinstance(a.v, (bytes, bytearray)):
                return [(cfg, Const(bytes(a.v)))]
        if fname in ("pack", "struct.pack") and args and all(isinstance(a, Const) for a in args):
            import struct as _struct
            try:
                return [(cfg, Const(_struct.pack(*[a.v for a in args])))]
            except _struct.error:
                out.add("raise", cfg.set("$exc", ExcV("Exception", f"struct.error L{node.lineno}")))
                return []
        if fname in ("unpack", "struct.unpack") and len(args) == 2 and all(isinstance(a, Const) for a in args):
            import struct as _struct
            try:
                return [(cfg, ListV([Const(x) for x in _struct.unpack(args[0].v, args[1].v)], "tuple"))]
            except _struct.error:
                out.add("raise", cfg.set("$exc", ExcV("Exception", f"struct.error L{node.lineno}")))
                return []
        if fname in ("ord", "chr", "abs", "int", "float", "repr") and len(args) == 1 and isinstance(args[0], Const) and not kwargs:
            try:
                return [(cfg, Const({"ord": ord, "chr": chr, "abs": abs, "int": int, "float": float, "repr": repr}[fname](args[0].v)))]
            except Exception:  # noqa
                return None
        if fname in ("re.match", "re.search", "re.split", "re.fullmatch") and len(args) >= 2 and all(isinstance(a, Const) for a in args) and not kwargs:
            import re as _re
            r = getattr(_re, fname[3:])(*[a.v for a in args])
            if isinstance(r, list):
                return [(cfg, ListV([Const(x) for x in r]))]
            return [(cfg, Const(r))]
        if fname in ("math.floor", "math.ceil") and len(args) == 1 and isinstance(args[0], Const):
            import math as _math
            return [(cfg, Const(getattr(_math, fname[5:])(args[0].v)))]
        if fname in ("dt.timedelta", "datetime.timedelta", "timedelta") and all(isinstance(a, Const) for a in args) and all(isinstance(v, Const) for v in kwargs.values()):
            import datetime as _dtm
            return [(cfg, Const(_dtm.timedelta(*[a.v for a in args], **{k: v.v for k, v in kwargs.items()})))]
        if fname in ("dt.datetime", "datetime.datetime", "dt.date") and args and all(isinstance(a, Const) for a in args) and not kwargs:
            import datetime as _dtm
            try:
                return [(cfg, Const((_dtm.date if fname.endswith("date") else _dtm.datetime)(*[a.v for a in args])))]
            except ValueError as err:  # 29 February of a year that has none, month 13, ...: the constructor raises
                out.add("raise", cfg.set("$exc", ExcV("ValueError", f"{fname}: {err}")))
                return []
            except Exception:  # noqa
                return None
        if fname in ("min", "max") and args and all(isinstance(a, Const) for a in args) and not kwargs:
            try:
                return [(cfg, Const((min if fname == "min" else max)(*[a.v for a in args])))]
            except Exception:  # noqa
                return None
        if fname in ("os.path.dirname", "os.path.basename", "os.path.join") and args and all(isinstance(a, Const) and isinstance(a.v, str) for a in args):
            import os.path as _osp
            return [(cfg, Const(getattr(_osp, fname.split(".")[-1])(*[a.v for a in args])))]
        if fname in ("copy.copy", "copy.deepcopy") and len(args) == 1:
            v = args[0]
            if isinstance(v, NodeV):
                return [(cfg, NodeV(v.cls, {**v.fields, "$copy": TRUE}, v.path))]
            return [(cfg, v)]
        if fname in ("sorted", "reversed", "iter", "enumerate", "any", "all", "min", "max", "len") and len(args) >= 1 and isinstance(args[0], DictV) \
                and not any(isinstance(k, App) for k, _ in args[0].items) and fname != "len":
            args = [ListV([k for k, _ in args[0].items], "list")] + list(args[1:])  # iterating a dictionary gives its keys
        if fname == "sorted" and len(args) == 1 and isinstance(args[0], ListV) and not kwargs:
            def skey(v):
                if isinstance(v, Const):
                    return (0, repr(type(v.v)), v.v)
                if isinstance(v, ListV) and v.items and isinstance(v.items[0], Const):
                    return (0, repr(type(v.items[0].v)), v.items[0].v)
                return None
            keys = [skey(v) for v in args[0].items]
            if all(k is not None for k in keys):
                try:
                    return [(cfg, ListV([v for _, v in sorted(zip(keys, args[0].items), key=lambda kv: kv[0])], "list"))]
                except TypeError:
                    pass
        if fname == "frozenset" and len(args) == 1 and not kwargs and isinstance(args[0], ListV) and not any(isinstance(x, App) and x.op == "more" for x in args[0].items):
            return [(cfg, ListV(tuple(dict.fromkeys(args[0].items)), "set"))]  # (an immutable set is a set for everything the rules observe)
        if fname == "dict.fromkeys" and len(args) in (1, 2) and not kwargs and isinstance(args[0], ListV) \
                and not any(isinstance(x, App) and x.op == "more" for x in args[0].items):
            d = DictV(())
            for k in args[0].items:
                d = d.set(k, args[1] if len(args) == 2 else NONE)
            return [(cfg, d)]
        if fname == "next" and len(args) in (1, 2) and not kwargs and isinstance(args[0], ListV) and args[0].kind in ("gen", "iter"):
            items = list(args[0].items)
            more = bool(items) and isinstance(items[-1], App) and items[-1].op == "more"
            if items and not (more and len(items) == 1):
                c2 = cfg
                if isinstance(node.args[0], (ast.Name, ast.Attribute)):
                    c2 = self.store_back(node.args[0], ListV(items[1:], args[0].kind), cfg)  # the iterator moves on
                return [(c2, items[0])]
            if not items:
                if len(args) == 2:
                    return [(cfg, args[1])]
                out.add("raise", cfg.set("$exc", ExcV("StopIteration", f"next L{node.lineno}")))
                return []
        if fname in ("any", "all") and len(args) == 1 and isinstance(args[0], ListV):
            truths = [self.static_truth(x, cfg) for x in args[0].items]
            if all(t is not None for t in truths):
                return [(cfg, Const(any(truths) if fname == "any" else all(truths)))]
        if fname == "bool" and len(args) == 1:
            t = self.static_truth(args[0], cfg)
            if t is not None:
                return [(cfg, Const(t))]
            return [(cfg, App("bool", (args[0],)))]
        if fname == "str" and len(args) == 1 and isinstance(args[0], Const):
            return [(cfg, Const(str(args[0].v)))]
        if fname == "type" and len(args) == 1:
            if isinstance(args[0], NodeV):
                return [(cfg, ClassV(args[0].cls))]
            if isinstance(args[0], ObjV):
                return [(cfg, ClassV(args[0].cls))]
            if isinstance(args[0], Const) and type(args[0].v).__name__ in self.BUILTIN_CLASSES | {"NoneType"}:
                return [(cfg, ClassV(type(args[0].v).__name__))]
            return [(cfg, App("type", (args[0],)))]
        if fname == "setattr" and len(args) == 3 and isinstance(args[1], Const) and isinstance(args[1].v, str) and isinstance(args[0], (ObjV, ClassV)):
            key = f"{args[0].oid if isinstance(args[0], ObjV) else args[0].name}.{args[1].v}"
            c2 = self.policy.on_store_attr(self, args[0], args[1].v, args[2], cfg, node) if hasattr(self.policy, "on_store_attr") else cfg
            return [((c2 or cfg).hset(key, args[2]), NONE)]  # setattr(o, "x", v) is o.x = v
        if fname == "getattr" and len(args) >= 2 and isinstance(args[1], Const) and isinstance(args[1].v, str):
            base = args[0]
            if isinstance(base, (ObjV, ClassV)):
                cls = base.cls if isinstance(base, ObjV) else base.name
                f = self.lookup_method(cls, args[1].v)
                if f is not None:
                    return [(cfg, FuncV(f, recv=base, name=f"{cls}.{args[1].v}"))]
                if isinstance(base, ObjV) and f"{base.oid}.{args[1].v}" in cfg.heap:
                    return [(cfg, cfg.heap[f"{base.oid}.{args[1].v}"])]
                if cls not in self.policy.program.classes if getattr(self.policy, "program", None) is not None else False:
                    # an object of a class defined outside the package (a logger, a socket): getattr(o, "x") is o.x
                    return [(cfg, self.getattr(base, args[1].v, cfg, node))]
                if len(args) == 3:
                    return [(cfg, args[2])]
                out.add("raise", cfg.set("$exc", ExcV("AttributeError", f"getattr L{node.lineno}")))
                return []
            if isinstance(base, NodeV):
                v = base.fields.get(args[1].v)
                if v is not None:
                    return [(cfg, v)]
                if len(args) == 3:
                    return [(cfg, args[2])]
            if isinstance(base, Const) and base.v is None and len(args) == 3:
                return [(cfg, args[2])]
            return [(cfg, App("getattr", tuple(args)))]
        if fname == "hasattr" and len(args) == 2:
            if isinstance(args[0], NodeV) and isinstance(args[1], Const):
                return [(cfg, Const(args[1].v in args[0].fields))]
            if isinstance(args[1], Const) and isinstance(args[1].v, str):
                if isinstance(args[0], DictV):
                    return [(cfg, Const(hasattr({}, args[1].v)))]
                if isinstance(args[0], ListV):
                    return [(cfg, Const(hasattr({"list": [], "tuple": (), "set": set()}.get(args[0].kind, []), args[1].v)))]
                if isinstance(args[0], Const):
                    return [(cfg, Const(hasattr(args[0].v, args[1].v)))]
                if isinstance(node.args[0], ast.Name) and node.args[0].id == "builtins" and isinstance(args[0], Sym):
                    # the host's builtins module (the interpreter's own lookup table): a fact of the running Python, nothing of the repository is run
                    import builtins as _b
                    return [(cfg, Const(hasattr(_b, args[1].v)))]
            return [(cfg, App("hasattr", tuple(args)))]
        if fname == "callable" and len(args) == 1 and isinstance(args[0], (FuncV, ClassV)):
            return [(cfg, TRUE)]
        if fname == "callable" and len(args) == 1 and isinstance(args[0], (Const, ListV, DictV)):
            return [(cfg, Const(callable(args[0].v)) if isinstance(args[0], Const) else FALSE)]
        return None

    def container_method(self, node, base, meth, args, kwargs, cfg):
        recv_name = node.func.value.id if isinstance(node.func, ast.Attribute) and isinstance(node.func.value, ast.Name) else None
        recv_attr = None
        if isinstance(node.func, ast.Attribute) and isinstance(node.func.value, ast.Attribute):
            recv_attr = node.func.value  # e.g. self.sym_table_stack.append(...)

        def rebind(newv, ret=NONE, c0=None):
            c = cfg if c0 is None else c0
            org = getattr(base, "origin", None)
            if org is not None and isinstance(newv, DictV):
                newv = DictV(newv.items, org)
                c = c.hset(org, DictV(newv.items))
            if org is not None and isinstance(newv, ListV) and isinstance(org, tuple):
                # an element of a heap dictionary held in a local: the dictionary's element changes with it
                slot, key = org
                if slot == "$var":
                    if key in c.env and isinstance(c.env[key], ListV):
                        c = c.set(key, ListV(newv.items, newv.kind, c.env[key].origin))  # the local the alias was taken from
                elif slot == "$slot":
                    c = c.hset(key, ListV(newv.items, newv.kind))  # the attribute the local is an alias of
                else:
                    holder = c.heap.get(slot)
                    if isinstance(holder, DictV) and holder.get(key) is not None:
                        c = c.hset(slot, DictV(holder.set(key, ListV(newv.items, newv.kind)).items))
                newv = ListV(newv.items, newv.kind, org)
            if recv_name is not None and recv_name in cfg.env:
                c = c.set(recv_name, newv)
            elif isinstance(node.func, ast.Attribute) and isinstance(node.func.value, ast.Subscript):
                c = self.store_back(node.func.value, newv, c)
            elif isinstance(node.func, ast.Attribute) and isinstance(node.func.value, ast.Call) and isinstance(node.func.value.func, ast.Attribute) \
                    and node.func.value.func.attr in ("setdefault", "get") and node.func.value.args:
                # d.setdefault(k, default).add(x) / d.get(k).add(x): the receiver is the element d[k]
                inner = node.func.value
                c = self.store_back(ast.Subscript(value=inner.func.value, slice=inner.args[0], ctx=ast.Load()), newv, c)
            elif recv_attr is not None:
                sub = Out()
                bases = self.ev(recv_attr.value, cfg, sub)
                if bases and isinstance(bases[0][1], ObjV):
                    c = c.hset(f"{bases[0][1].oid}.{recv_attr.attr}", newv)
                elif bases and isinstance(bases[0][1], ClassV):
                    c = c.hset(f"{bases[0][1].name}.{recv_attr.attr}", newv)
            return [(c, ret)]

        if isinstance(base, ListV):
            if meth == "append" and len(args) == 1:
                return rebind(ListV(base.items + (args[0],), base.kind))
            if meth == "add" and len(args) == 1:
                if base.kind == "set" and args[0] in base.items:
                    return [(cfg, NONE)]
                return rebind(ListV(base.items + (args[0],), base.kind))
            # (distinct known objects - ObjV / ClassV / NodeV - are as decidable as constants: equality is identity of the abstract object)
            if meth in ("discard", "remove") and len(args) == 1 and (_concrete(args[0]) or args[0] in base.items) \
                    and all(_concrete(x) or x == args[0] or (isinstance(x, (ObjV, ClassV, NodeV)) and isinstance(args[0], (ObjV, ClassV, NodeV))) for x in base.items):
                if args[0] in base.items:
                    items = list(base.items)
                    items.remove(args[0])
                    return rebind(ListV(items, base.kind))
                if meth == "discard":
                    return [(cfg, NONE)]
            if meth == "clear" and not args:
                return rebind(ListV((), base.kind))
            if meth == "extend" and len(args) == 1 and isinstance(args[0], ListV):
                return rebind(ListV(base.items + args[0].items, base.kind))
            if meth == "pop" and not args and base.items:
                return rebind(ListV(base.items[:-1], base.kind), base.items[-1])
            if meth == "pop" and len(args) == 1 and isinstance(args[0], Const) and isinstance(args[0].v, int) and base.kind == "list" \
                    and -len(base.items) <= args[0].v < len(base.items):
                items = list(base.items)
                v = items.pop(args[0].v)
                return rebind(ListV(items, base.kind), v)
            if meth == "copy":
                return [(cfg, base)]
            if meth == "update" and len(args) == 1 and isinstance(args[0], ListV):
                extra = args[0].items if base.kind != "set" else tuple(x for x in dict.fromkeys(args[0].items) if x not in base.items)
                return rebind(ListV(base.items + extra, base.kind))
            if meth in ("issubset", "issuperset", "difference", "union", "intersection", "isdisjoint") and len(args) == 1:
                other = args[0]
                if isinstance(other, Const) and isinstance(other.v, (frozenset, set, tuple, list)):
                    other = ListV([Const(x) for x in other.v], "set")
                if isinstance(other, ListV) and all(isinstance(x, Const) for x in base.items + other.items):
                    a, b = set(base.items), set(other.items)
                    if meth == "issubset":
                        return [(cfg, Const(a <= b))]
                    if meth == "issuperset":
                        return [(cfg, Const(a >= b))]
                    if meth == "isdisjoint":
                        return [(cfg, Const(not (a & b)))]
                    r = {"difference": a - b, "union": a | b, "intersection": a & b}[meth]
                    return [(cfg, ListV(sorted(r, key=repr), "set"))]
        if isinstance(base, DictV):
            if meth == "get" and args and isinstance(args[0], (Const, ClassV)):
                v = base.get(args[0])
                if v is not None:
                    if isinstance(v, ListV) and base.origin is not None and v.kind in ("list", "set"):
                        v = ListV(v.items, v.kind, (base.origin, args[0]))  # the element itself, not a copy
                    return [(cfg, v)]
                if all(isinstance(k, (Const, ClassV)) for k, _ in base.items):
                    return [(cfg, args[1] if len(args) > 1 else NONE)]
            if meth == "items":
                return [(cfg, ListV([ListV((k, v), "tuple") for k, v in base.items]))]
            if meth == "keys":
                return [(cfg, ListV([k for k, _ in base.items], "keys"))]
            if meth == "values":
                return [(cfg, ListV([v for _, v in base.items]))]
            if meth == "copy":
                return [(cfg, DictV(base.items))]
            if meth == "update" and len(args) <= 1 and (args or kwargs) and not any(k.startswith("**") for k in kwargs):
                # update(mapping), update(key=value, ..), update(mapping, key=value, ..)
                d = base
                if args and isinstance(args[0], DictV):
                    for k, v in args[0].items:
                        d = d.set(k, v)
                elif args:
                    d = d.set(App("starstar", (args[0],)), args[0])
                for k, v in kwargs.items():
                    d = d.set(Const(k), v)
                return rebind(d)
            if meth == "pop" and args and (isinstance(args[0], Const) or (isinstance(args[0], (ObjV, ClassV)) and all(isinstance(k, (Const, ObjV, ClassV)) for k, _ in base.items))):
                v = base.get(args[0])
                nd = DictV([(k, x) for k, x in base.items if k != args[0]], base.origin)
                if v is not None:
                    # removing a key is an observable of the dictionary, like `del d[k]`
                    return rebind(nd, v, cfg.emit(("delitem", base, args[0])) if getattr(self.policy, "emit_setitem", True) else None)
                if len(args) > 1:
                    return rebind(nd, args[1])
            if meth == "setdefault" and len(args) == 2:
                v = base.get(args[0])
                if v is not None:
                    return [(cfg, v)]
                return rebind(base.set(args[0], args[1]), args[1])
        if isinstance(base, Const) and isinstance(base.v, (bytes, str)) and meth == "join" and len(args) == 1 and isinstance(args[0], ListV) \
                and all(isinstance(x, Const) and isinstance(x.v, type(base.v)) for x in args[0].items):
            return [(cfg, Const(base.v.join(x.v for x in args[0].items)))]
        if isinstance(base, Const) and isinstance(base.v, _DATA_TYPES) and meth in _DATA_METHODS and all(isinstance(a, Const) for a in args) \
                and all(isinstance(v, Const) for v in kwargs.values()):
            try:
                r = getattr(base.v, meth)(*[a.v for a in args], **{k: v.v for k, v in kwargs.items()})
            except Exception:  # noqa
                return None
            if isinstance(r, tuple):
                return [(cfg, ListV([Const(x) for x in r], "tuple"))]
            return [(cfg, Const(r))]
        if isinstance(base, Const) and isinstance(base.v, (str, bytes)):
            if meth in ("startswith", "endswith") and args and isinstance(args[0], ListV) and args[0].kind == "tuple" \
                    and all(isinstance(x, Const) for x in args[0].items) and all(isinstance(a, Const) for a in args[1:]) and not kwargs:
                try:
                    return [(cfg, Const(getattr(base.v, meth)(tuple(x.v for x in args[0].items), *[a.v for a in args[1:]])))]
                except Exception:  # noqa
                    return None
            if all(isinstance(a, Const) for a in args) and not kwargs:
                try:
                    r = getattr(base.v, meth)(*[a.v for a in args])
                    if isinstance(r, (str, int, bool, type(None), bytes)):
                        return [(cfg, Const(r))]
                    if isinstance(r, (list, tuple)):
                        return [(cfg, ListV([Const(x) for x in r]))]
                except Exception:  # noqa
                    return None
        return None

    def isinstance(self, val, clsv, cfg):
        names = None
        if isinstance(clsv, ClassV):
            names = [clsv.name]
        elif isinstance(clsv, ListV) and all(isinstance(x, ClassV) for x in clsv.items):
            names = [x.name for x in clsv.items]
        elif isinstance(clsv, Sym) and clsv.tag[0] == "g":
            names = [clsv.tag[1].split(".")[-1]]
        elif isinstance(clsv, ListV):
            names = []
            for x in clsv.items:
                if isinstance(x, ClassV):
                    names.append(x.name)
                elif isinstance(x, Sym) and x.tag[0] == "g":
                    names.append(x.tag[1].split(".")[-1])
                else:
                    return None
        if names is None:
            return None
        d = self.policy.isinstance(self, val, names, cfg)
        if d is not None:
            return d
        if isinstance(val, NodeV):
            return any(_ast_isinstance(val.cls, n) for n in names)
        if isinstance(val, Const):
            tn = type(val.v).__name__
            if val.v is None:
                return False
            return any(n == tn or (tn == "bool" and n == "int") for n in names)
        if isinstance(val, ListV):
            return any(n == val.kind for n in names)
        if isinstance(val, DictV):
            return "dict" in names
        if isinstance(val, ExcV):
            return any(exc_is_subclass(val.cls, n) for n in names)
        if isinstance(val, ObjV):
            return any(self.class_is_sub(val.cls, n) for n in names)
        return None

    def class_is_sub(self, cls, base):
        prog = self.program
        seen = set()
        todo = [cls]
        while todo:
            cn = todo.pop()
            if cn == base:
                return True
            if cn in seen or prog is None or cn not in prog.classes:
                continue
            seen.add(cn)
            for b in prog.classes[cn].node.bases:
                d = dotted(b)
                if d:
                    todo.append(d.split(".")[-1])
        return False


def _concrete(v):
    if isinstance(v, Const):
        return True
    if isinstance(v, ListV):
        return all(_concrete(x) for x in v.items)
    if isinstance(v, DictV):
        return all(_concrete(k) and _concrete(x) for k, x in v.items)
    return False


def _deep_fresh(v):
    """copy.deepcopy over the abstract domain: same contents, no container is an alias of a heap slot any more."""
    if isinstance(v, DictV):
        return DictV([(k, _deep_fresh(x)) for k, x in v.items])
    if isinstance(v, ListV):
        return ListV([_deep_fresh(x) for x in v.items], v.kind)
    return v


def _plain(v):
    if isinstance(v, Const):
        return v.v
    if isinstance(v, ListV):
        items = [_plain(x) for x in v.items]
        return set(map(repr, items)) if v.kind == "set" else items
    if isinstance(v, DictV):
        return {repr(_plain(k)): _plain(x) for k, x in v.items}
    return v


def _ast_isinstance(clsname, basename):
    cls = getattr(ast, clsname, None)
    base = getattr(ast, basename, None)
    if cls is None or base is None:
        return clsname == basename
    return issubclass(cls, base)


def _is_static(fn):
    for d in getattr(fn, "decorator_list", []):
        if dotted(d) == "staticmethod":
            return True
    return False


def _as_load(tgt):
    new = ast.parse(ast.unparse(tgt), mode="eval").body
    ast.copy_location(new, tgt)
    for n in ast.walk(new):
        if not hasattr(n, "lineno"):
            n.lineno = getattr(tgt, "lineno", 0)
    return new


import operator as _op  # noqa: E402

_BINFN = {
    "add": _op.add, "sub": _op.sub, "mult": _op.mul, "div": _op.truediv, "mod": _op.mod, "pow": _op.pow,
    "lshift": _op.lshift, "rshift": _op.rshift, "bitor": _op.or_, "bitxor": _op.xor, "bitand": _op.and_,
    "floordiv": _op.floordiv,
}
_CMPFN = {"eq": _op.eq, "noteq": _op.ne, "lt": _op.lt, "lte": _op.le, "gt": _op.gt, "gte": _op.ge}
