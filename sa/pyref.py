"""Reference semantics: the abstract interpreter applied to the *probe source itself*.

``absint.Interp`` already implements Python's evaluation rules over the abstract domain (operand order,
short circuit, chained comparison, unpacking, augmented assignment ...).  Run on the probe's own AST with
leaf names producing ``("eval", name)`` events, it yields the reference set of paths that the
interpreter's handler (partially evaluated on the schematic node of the same probe) must reproduce.
The order part of this reference is cross-validated against the host compiler (``dis``) in the thorough tier.
"""

from __future__ import annotations

import ast
import re

from .absint import (
    FALSE, NONE, TRUE, App, Cfg, Const, DictV, ExcV, Interp, ListV, Out, Policy, Sym,
)

LEAF = re.compile(r"^[a]\d+$")
ITER_LEAF = re.compile(r"^i\d+$")
VAR = re.compile(r"^[xyz]\d*$")


def leaf_value(name):
    if ITER_LEAF.match(name):
        return ListV([Sym(("item", name, 0)), Sym(("item", name, 1))], "list")
    return Sym(("val", name))


class RefPolicy(Policy):
    loop_unroll = 2
    inline_depth = 0
    emit_setitem = True
    emit_getitem = True

    def __init__(self, raise_at_eval=False, raise_at_call=False):
        super().__init__(None)
        self.raise_at_eval = raise_at_eval
        self.raise_at_call = raise_at_call

    def call_raises(self, interp, node, fname, fval, cfg):
        return ()

    def await_raises(self, interp, node, cfg):
        return ()

    def call(self, interp, node, fname, fval, args, kwargs, cfg, out):
        if self.raise_at_call:
            c0 = cfg.emit(("pycall", fval, tuple(args), tuple(("**" if k.startswith("**") else k, v) for k, v in kwargs.items())))
            out.add("raise", c0.set("$exc", ExcV("Exception", f"call {fval!r}")))
        cfg = cfg.emit(("pycall", fval, tuple(args), tuple(("**" if k.startswith("**") else k, v) for k, v in kwargs.items())))
        return [(cfg, App("res", (Const("call_func"), fval)))]


class RefInterp(Interp):
    emit_hash = True
    """Python semantics over the abstract domain for probe sources."""

    def e_Name(self, node, cfg, out):
        if isinstance(node.ctx, ast.Load):
            if LEAF.match(node.id) or ITER_LEAF.match(node.id):
                cfg = cfg.emit(("eval", node.id))
                if self.policy.raise_at_eval:
                    out.add("raise", cfg.set("$exc", ExcV("Exception", f"eval {node.id}")))
                return [(cfg, leaf_value(node.id))]
            return [(cfg.emit(("load", node.id)), cfg.env.get(node.id, Sym(("var", node.id))))]
        return [(cfg, Const(node.id))]

    # comparison results are bool for the value kinds the property quantifies over: x == (True if x else False)
    def e_Compare(self, node, cfg, out):
        res = []
        for c, v in super().e_Compare(node, cfg, out):
            if isinstance(v, Const):
                res.append((c, v))
                continue
            links = v.args if isinstance(v, App) and v.op == "and" else [v]
            cur = [c]
            done = []
            for link in links:
                nxt = []
                for c1 in cur:
                    for c2, t in self.truth(node, link, c1):
                        (nxt if t else done).append(c2)
                cur = nxt
            res.extend((c1, FALSE) for c1 in done)
            res.extend((c1, TRUE) for c1 in cur)
        return res

    def _cmp_chain(self, node, i, left, cfg, out, res, acc):
        # short circuit: stop evaluating comparators once a link is (assumed) false
        op = node.ops[i]
        for c, right in self.ev(node.comparators[i], cfg, out):
            v = self.compare(op, left, right, c)
            last = i == len(node.ops) - 1
            for c1, t in self.truth(node, v, c):
                if not t:
                    res.append((c1, FALSE))
                elif last:
                    res.append((c1, TRUE))
                else:
                    self._cmp_chain(node, i + 1, right, c1, out, res, acc)

    # statement leaves -------------------------------------------------------
    def s_Expr(self, stmt, cfg):
        if isinstance(stmt.value, ast.Name) and re.match(r"^s\d+$", stmt.value.id):
            name = stmt.value.id
            cfg = cfg.emit(("eval", name))
            out = Out()
            if self.policy.raise_at_eval:
                out.add("raise", cfg.set("$exc", ExcV("Exception", f"eval {name}")))
            out.add("normal", cfg)
            out.add("return", cfg.set("$ret", Sym(("val", name, "EvalReturn"))))
            if self.loop_depth > 0 or self.policy_allow_stray:
                out.add("break", cfg.set("$flow", Const(name)))
                out.add("continue", cfg.set("$flow", Const(name)))
            return out
        return super().s_Expr(stmt, cfg)

    loop_depth = 0
    policy_allow_stray = True

    # try: handler types that are leaves may or may not match the raised exception
    def _dispatch_handlers(self, stmt, cfg, exc, pending):
        remaining = [cfg]
        for h in stmt.handlers:
            if not remaining:
                break
            nxt = []
            for c in remaining:
                branches = []
                if h.type is None:
                    branches.append((c, True))
                else:
                    sub = Out()
                    for c1, tv in self.ev(h.type, c, sub):
                        for kind in ("raise",):
                            for cr in sub.get(kind):
                                pending.add("raise", cr)
                        branches.append((c1, True))
                        branches.append((c1, False))
                for c1, matched in branches:
                    if not matched:
                        nxt.append(c1)
                        continue
                    prev = c1.env.get("$handling")
                    c1 = c1.set("$handling", c1.env.get("$exc"))
                    if h.name:
                        c1 = c1.emit(("store", h.name, c1.env.get("$exc"))).set(h.name, c1.env.get("$exc"))
                    o = self.exec_block(h.body, [c1.unset("$exc")])
                    for kind in Out.KINDS:
                        for c2 in o.get(kind):
                            if h.name and h.name in c2.env:
                                # the implicit `del name` at the end of the clause (nothing happens when the handler unbound the name itself)
                                c2 = c2.emit(("delname", h.name)).unset(h.name)
                            c2 = c2.set("$handling", prev) if prev is not None else c2.unset("$handling")
                            pending.add(kind, c2)
            remaining = nxt
        pending.extend("raise", remaining)

    # with: the context-manager protocol, one item at a time (language reference 8.5)
    def s_With(self, stmt, cfg, is_async=False):
        enter_attr = "__aenter__" if is_async else "__enter__"
        exit_attr = "__aexit__" if is_async else "__exit__"
        return self._with_item(stmt, 0, cfg, enter_attr, exit_attr)

    def s_AsyncWith(self, stmt, cfg):
        return self.s_With(stmt, cfg, is_async=True)

    def _pycall(self, fval, args, cfg, out):
        cfg = cfg.emit(("pycall", fval, tuple(args), ()))
        if self.policy.raise_at_call:
            out.add("raise", cfg.set("$exc", ExcV("Exception", f"call {fval!r}")))
        return cfg, App("res", (Const("call_func"), fval, *args))

    def _with_item(self, stmt, idx, cfg, enter_attr, exit_attr):
        out = Out()
        if idx == len(stmt.items):
            return self.exec_block(stmt.body, [cfg])
        item = stmt.items[idx]
        for c, mgr in self.ev(item.context_expr, cfg, out):
            enter = App("getattr", (App("type", (mgr,)), Const(enter_attr)))
            exit_ = App("getattr", (App("type", (mgr,)), Const(exit_attr)))
            c, val = self._pycall(enter, [mgr], c, out)
            inner = Out()
            if item.optional_vars is not None:
                cs = self.assign(item.optional_vars, val, c, inner)
            else:
                cs = [c]
            for c1 in cs:
                inner.merge(self._with_item(stmt, idx + 1, c1, enter_attr, exit_attr))
            for kind in ("normal", "return", "break", "continue"):
                for c2 in inner.get(kind):
                    c3, _ = self._pycall(exit_, [mgr, Const(None), Const(None), Const(None)], c2, out)
                    out.add(kind, c3)
            for c2 in inner.get("raise"):
                exc = c2.env.get("$exc")
                if isinstance(exc, ExcV) and exc.cls in ("CancelledError",):
                    out.add("raise", c2)
                    continue
                c3, res = self._pycall(exit_, [mgr, App("excinfo", ())], c2.unset("$exc"), out)
                for c4, t in self.truth(stmt, res, c3):
                    if t:
                        out.add("normal", c4)  # suppressed
                    else:
                        out.add("raise", c4.set("$exc", exc))
        return out

    def s_For(self, stmt, cfg):
        self.loop_depth += 1
        try:
            return super().s_For(stmt, cfg)
        finally:
            self.loop_depth -= 1

    def s_While(self, stmt, cfg):
        self.loop_depth += 1
        try:
            return super().s_While(stmt, cfg)
        finally:
            self.loop_depth -= 1

    # stores --------------------------------------------------------------
    def assign(self, tgt, val, cfg, out):
        if isinstance(tgt, ast.Name):
            return [cfg.emit(("store", tgt.id, val)).set(tgt.id, val)]
        if isinstance(tgt, (ast.Tuple, ast.List)):
            star = [i for i, e in enumerate(tgt.elts) if isinstance(e, ast.Starred)]
            if isinstance(val, ListV):
                items = list(val.items)
                n = len(tgt.elts)
                if star:
                    if len(items) < n - 1:
                        out.add("raise", cfg.set("$exc", ExcV("ValueError", "unpack")))
                        return []
                    k = star[0]
                    nstar = len(items) - (n - 1)
                    parts = items[:k] + [ListV(items[k:k + nstar], "list")] + items[k + nstar:]
                else:
                    if len(items) != n:
                        out.add("raise", cfg.set("$exc", ExcV("ValueError", "unpack")))
                        return []
                    parts = items
            else:
                parts = [App("unpack", (val, Const(i))) for i in range(len(tgt.elts))]
            cs = [cfg]
            for e, p in zip(tgt.elts, parts):
                ncs = []
                for c in cs:
                    ncs.extend(self.assign(e.value if isinstance(e, ast.Starred) else e, p, c, out))
                cs = ncs
            return cs
        if isinstance(tgt, ast.Attribute):
            res = []
            for c, base in self.ev(tgt.value, cfg, out):
                res.append(c.emit(("setattr", base, Const(tgt.attr), val)))
            return res
        if isinstance(tgt, ast.Subscript):
            res = []
            for c, base in self.ev(tgt.value, cfg, out):
                for c1, idx in self.ev(tgt.slice, c, out):
                    res.append(c1.emit(("setitem", base, idx, val)))
            return res
        return super().assign(tgt, val, cfg, out)

    def s_AnnAssign(self, stmt, cfg):
        """Module/class level (PEP 526): the value is evaluated and assigned first, then the annotation is evaluated;
        only simple names are recorded in __annotations__.  (In function scope annotations are never evaluated.)"""
        out = Out()
        cs = [cfg]
        if stmt.value is not None:
            cs = []
            for c, v in self.ev(stmt.value, cfg, out):
                cs.extend(self.assign(stmt.target, v, c, out))
        for c in cs:
            for c1, ann in self.ev(stmt.annotation, c, out):
                if stmt.simple and isinstance(stmt.target, ast.Name):
                    # (`(x): int = 1` has a Name target but is not "simple": evaluated, not recorded)
                    c1 = c1.emit(("annotate", stmt.target.id, ann))
                out.add("normal", c1)
        return out

    def e_Dict(self, node, cfg, out):
        # a `**x` entry needs a mapping: a list/tuple display is a TypeError (after it was evaluated)
        for k, v in zip(node.keys, node.values):
            if k is None and isinstance(v, (ast.List, ast.Tuple, ast.Set)):
                cur = [(cfg, [])]
                for k2, v2 in zip(node.keys, node.values):
                    nxt = []
                    for c, pend in cur:
                        if k2 is not None:
                            for c1, kv in self.ev(k2, c, out):
                                nxt.extend((c2, pend + [kv]) for c2, _ in self.ev(v2, c1, out))
                        else:
                            for pk in pend:  # the run of plain pairs before a `**` entry is built (and its keys hashed) first
                                c = c.emit(("hash", pk))
                            nxt.extend((c1, []) for c1, _ in self.ev(v2, c, out))
                    cur = nxt
                    if v2 is v:
                        break
                for c, _ in cur:
                    out.add("raise", c.set("$exc", ExcV("TypeError", "not a mapping")))
                return []
        return super().e_Dict(node, cfg, out)

    def e_Call(self, node, cfg, out):
        # f(k=.., **{'k': ..}) -> TypeError (multiple values); f(**[..]) -> TypeError (not a mapping): both after all arguments were evaluated
        explicit = {kw.arg for kw in node.keywords if kw.arg is not None}
        bad = None
        for kw in node.keywords:
            if kw.arg is None and isinstance(kw.value, (ast.List, ast.Tuple, ast.Set)):
                bad = "not a mapping"
            if kw.arg is None and isinstance(kw.value, ast.Dict):
                keys = {k.value for k in kw.value.keys if isinstance(k, ast.Constant) and isinstance(k.value, str)}
                if keys & explicit:
                    bad = "multiple values for keyword argument"
        if bad is None:
            return super().e_Call(node, cfg, out)
        cur = [c for c, _ in self.ev(node.func, cfg, out)]
        for a in node.args:
            cur = [c1 for c in cur for c1, _ in self.ev(a.value if isinstance(a, ast.Starred) else a, c, out)]
        for kw in node.keywords:
            cur = [c1 for c in cur for c1, _ in self.ev(kw.value, c, out)]
        for c in cur:
            out.add("raise", c.set("$exc", ExcV("TypeError", bad)))
        return []

    def s_AugAssign(self, stmt, cfg):
        out = Out()
        tgt = stmt.target
        if isinstance(tgt, ast.Name):
            c = cfg.emit(("load", tgt.id))
            cur = cfg.env.get(tgt.id, Sym(("var", tgt.id)))
            for c1, v in self.ev(stmt.value, c, out):
                new = self.binop(stmt.op, cur, v, inplace=True)
                out.extend("normal", self.assign(tgt, new, c1, out))
        elif isinstance(tgt, ast.Subscript):
            for c, base in self.ev(tgt.value, cfg, out):
                for c1, idx in self.ev(tgt.slice, c, out):
                    cur = self.getitem(base, idx)
                    c1 = c1.emit(("getitem", base, idx))
                    for c2, v in self.ev(stmt.value, c1, out):
                        new = self.binop(stmt.op, cur, v, inplace=True)
                        out.add("normal", c2.emit(("setitem", base, idx, new)))
        elif isinstance(tgt, ast.Attribute):
            for c, base in self.ev(tgt.value, cfg, out):
                cur = App("getattr", (base, Const(tgt.attr)))
                for c1, v in self.ev(stmt.value, c, out):
                    new = self.binop(stmt.op, cur, v, inplace=True)
                    out.add("normal", c1.emit(("setattr", base, Const(tgt.attr), new)))
        return out

    def s_Delete(self, stmt, cfg):
        out = Out()
        cs = [cfg]
        for tgt in stmt.targets:
            ncs = []
            for c in cs:
                if isinstance(tgt, ast.Name):
                    ncs.append(c.emit(("delname", tgt.id)).unset(tgt.id))
                elif isinstance(tgt, ast.Subscript):
                    for c1, base in self.ev(tgt.value, c, out):
                        for c2, idx in self.ev(tgt.slice, c1, out):
                            ncs.append(c2.emit(("delitem", base, idx)))
                elif isinstance(tgt, ast.Attribute):
                    for c1, base in self.ev(tgt.value, c, out):
                        ncs.append(c1.emit(("delattr", base, Const(tgt.attr))))
                elif isinstance(tgt, (ast.Tuple, ast.List)):
                    sub = ast.Delete(targets=list(tgt.elts))
                    ncs.extend(self.s_Delete(sub, c).get("normal"))
            cs = ncs
        out.extend("normal", cs)
        return out

    def e_Attribute(self, node, cfg, out):
        return [(c, App("getattr", (base, Const(node.attr)))) for c, base in self.ev(node.value, cfg, out)]

    def e_JoinedStr(self, node, cfg, out):
        cur = [(cfg, [])]
        for part in node.values:
            nxt = []
            for c, vals in cur:
                if isinstance(part, ast.Constant):
                    nxt.append((c, vals + [Const(part.value)]))
                else:
                    for c1, v in self.ev(part.value, c, out):
                        if part.format_spec is not None:
                            for c2, fs in self.ev(part.format_spec, c1, out):
                                nxt.append((c2, vals + [App("format", (v, fs, Const(part.conversion)))]))
                        else:
                            nxt.append((c1, vals + [App("format", (v, NONE, Const(part.conversion)))]))
            cur = nxt
        return [(c, App("fstr", vals)) for c, vals in cur]

    def e_ListComp(self, node, cfg, out):
        return [(c, v) for c, v in super().e_ListComp(node, cfg, out)]


def run_reference(src, mode="eval", raise_at_eval=False, raise_at_call=False):
    tree = ast.parse(src, mode=mode)
    interp = RefInterp(RefPolicy(raise_at_eval=raise_at_eval, raise_at_call=raise_at_call))
    out = Out()
    if mode == "eval":
        for c, v in interp.ev(tree.body, Cfg(), out):
            out.add("return", c.set("$ret", v))
    else:
        o = interp.exec_block(tree.body, [Cfg()])
        out.merge(o)
    return out
