"""E1 - flow rules on top of absint: every call / await may raise; restore, pairing and ordering obligations.

``FlowPolicy`` makes every call outside a reviewed no-raise table a possible ``Exception`` exit and every
``await`` a possible ``CancelledError`` exit, records selected calls as ordered events, and keeps the values of
object attributes in the heap so that "restored on every exit" is decided by comparing heap values at the exits
with the values on entry.
"""

from __future__ import annotations

import ast
import os

from .absint import NONE, App, Cfg, ClassV, Const, DictV, ExcV, FuncV, Interp, ListV, ObjV, Out, Policy, Sym
from .repo import AnalysisError, call_name, dotted, norm

# calls that cannot raise (reviewed): logging, container probes, constructors of plain containers
NO_RAISE_PREFIX = ("_LOGGER.", "logging.", "self.logger.", "cls.logger.")
NO_RAISE = {
    "isinstance", "len", "set", "dict", "list", "tuple", "str", "bool", "int", "float", "id", "type", "hasattr", "callable",
    "time.monotonic", "time.time", "asyncio.current_task", "asyncio.Queue", "dt_now", "sorted", "reversed", "enumerate", "zip",
    "min", "max", "repr", "frozenset", "range", "super", "getattr", "print", "any", "all", "Context", "issubclass",
    "asyncio.get_running_loop", "loop.time", "dt.timedelta", "traceback.format_exc", "id",
}
NO_RAISE_METHODS = {
    "get", "add", "discard", "append", "copy", "items", "keys", "values", "update", "pop", "startswith", "endswith", "split",
    "strip", "lower", "replace", "count", "find", "join", "format", "setdefault", "clear", "extend", "union", "difference",
    "issubset", "debug", "info", "warning", "error", "exception", "put_nowait", "cancel", "done", "cancelled", "total_seconds",
    "isoformat", "get_name", "get_global_ctx_name", "get_logger", "get_logger_name", "get_global_ctx", "rfind", "lstrip", "rstrip",
    "remove_done_callback", "add_done_callback", "set_result", "set_exception", "time", "monotonic",
}


PURE_FUNCS = {"len", "isinstance", "str", "bool", "int", "float", "sorted", "min", "max", "abs", "repr", "type", "tuple", "frozenset",
              "hasattr", "callable", "issubclass", "any", "all", "sum"}


_DEREF_CACHE = {}  # (id of a function node, local name) -> the attribute chain the local is bound to once, or None
_FN_NAMES = {}     # id of a function node -> names occurring in it


class FlowPolicy(Policy):
    inline_depth = 0
    loop_unroll = 2
    max_cfgs = 40000
    emit_setitem = False
    live_lists = True  # a container in the heap that changes while a for loop walks it is walked as Python's iterators do

    def __init__(self, program, events=(), no_raise=(), may_raise_all=True, cancel=True, inline=(), globals_=None,
                 summaries=None, track_calls=False, locals_=None, record_atoms=True):
        super().__init__(program)
        self.events = tuple(events)  # predicates name->label or exact names
        self.extra_no_raise = set(no_raise)
        self.may_raise_all = may_raise_all
        self.cancel = cancel
        self.inline = set(inline)  # dotted callee names to inline (resolved through program)
        self.globals_ = globals_ or {}
        self.summaries = summaries or {}
        self.track_calls = track_calls
        self.locals_ = set(locals_) if locals_ is not None else None
        self.record_atoms = record_atoms
        self.atom_attrs = set()
        self.acquire_labels = set()
        self._pending_acquire = {}
        self.raising_labels = set()
        self.raising_suffixes = ()
        self.trace_handlers = False
        self.widen_locals = False
        # scenario / table harnesses (no injected exceptions): a call of a helper defined in the repository that the rule neither summarises nor
        # tracks as an event is interpreted, not left opaque - so extracting some lines into a helper (method, nested or module-level function) changes nothing
        self.auto_inline = True
        self.free_inline = set()
        self.auto_inline_max_stmts = 30
        if inline:
            self.inline_depth = 3

    def global_name(self, name, interp):
        if name in self.globals_:
            return self.globals_[name]
        if self.program is not None and name in self.program.classes:
            return ClassV(name)
        rel = getattr(interp, "module_rel", None)
        if self.program is not None and rel and self.auto_inline:
            # a module-level function of the unit's own module (a helper extracted from the function under analysis)
            try:
                mod = self.program.module(rel)
            except Exception:  # noqa
                mod = None
            unit = getattr(interp, "unit", None)
            if unit is not None and hasattr(self.program, "resolve_callable"):
                # a function defined next to the unit under analysis (nested in the same enclosing function, or at module level)
                hu = self.program.resolve_callable(unit, ast.Name(id=name))
                if hu is not None and hu is not unit and isinstance(hu.node, (ast.FunctionDef, ast.AsyncFunctionDef)):
                    return FuncV(hu.node, name=name)
            if mod is not None:
                for st in mod.body:
                    if isinstance(st, (ast.FunctionDef, ast.AsyncFunctionDef)) and st.name == name:
                        return FuncV(st, name=name)
                    if isinstance(st, ast.Assign) and len(st.targets) == 1 and isinstance(st.targets[0], ast.Name) and st.targets[0].id == name and name.isupper():
                        try:
                            return _lit(ast.literal_eval(st.value))
                        except Exception:  # noqa - not a literal: a table built from literals (`{**dict.fromkeys((..), 60), ..}`)
                            v = _const_expr(self.program, rel, st.value, {k: x for k, x in self.globals_.items() if _concrete(x)})
                            if v is not None:
                                return v
                            break
        # module-level `NAME = re.compile(<literal>)` of the unit's own module: the compiled pattern itself
        if self.program is not None and rel and name.isupper():
            node = None
            for r in [rel] + sorted(m for m in self.program.modules if m != rel):
                try:
                    node = self.program.module_const(r, name)
                    break
                except Exception:  # noqa - not defined in that module (imported from a sibling)
                    continue
            if isinstance(node, ast.Call) and call_name(node) == "re.compile" and node.args and isinstance(node.args[0], ast.Constant) and isinstance(node.args[0].value, str):
                import re as _re
                try:
                    return Const(_re.compile(node.args[0].value))
                except _re.error:
                    return None
        return None

    def label(self, fname, fval):
        if fname is None:
            if isinstance(fval, FuncV):
                return fval.name
            return None
        return fname

    def event_for(self, label):
        for e in self.events:
            if callable(e):
                r = e(label)
                if r:
                    return r
            elif e == label:
                return label
        return None

    def is_no_raise(self, label):
        if label is None:
            return False
        if label in NO_RAISE or label in self.extra_no_raise:
            return True
        if label.startswith(NO_RAISE_PREFIX):
            return True
        last = label.split(".")[-1]
        if "." in label and last in NO_RAISE_METHODS:
            return True
        return False

    def _known_labels(self):
        ks = set(k for k in self.summaries if isinstance(k, str)) | set(self.raising_labels) | set(self.extra_no_raise) | set(self.acquire_labels)
        ks |= {e for e in self.events if isinstance(e, str)}
        return ks

    def _alias(self, interp, label, cfg):
        """A rule names a call by the text the code had when it was written (`dm.start`).  When the function no longer has a local of that name but calls
        the same method on another local - the variable was renamed - the call is the one the rule means: it is reported under the rule's label, and
        the rule's name for the variable is bound to the same object.  Applies only when exactly one known label has that method name."""
        if not label or label.count(".") != 1 or isinstance(interp.call_stack[-1] if interp.call_stack else None, ast.Lambda):
            return label, cfg
        var, meth = label.split(".")
        if var in ("self", "cls"):
            return label, cfg
        known = self._known_labels()
        if label in known:
            return label, cfg
        fn = interp.call_stack[-1] if interp.call_stack else None
        if fn is not None and not isinstance(fn, ast.Lambda) and var.isidentifier():
            # a local bound once to an attribute read (`future = self._future`): the call is the call on that attribute
            from .repo import deref_local, dotted
            ck = (id(fn), var)
            if ck not in _DEREF_CACHE:
                v = deref_local(fn, ast.Name(id=var, ctx=ast.Load()))
                _DEREF_CACHE[ck] = dotted(v) if not isinstance(v, ast.Name) else None
            d = _DEREF_CACHE[ck]
            if d and f"{d}.{meth}" in known:
                return f"{d}.{meth}", cfg
        if var not in cfg.env:
            return label, cfg
        key = id(fn)
        if key not in _FN_NAMES:
            names = set()
            if fn is not None:
                for n in ast.walk(fn):
                    if isinstance(n, ast.Name):
                        names.add(n.id)
                    elif isinstance(n, ast.arg):
                        names.add(n.arg)
            _FN_NAMES[key] = names
        cands = [k for k in known if k.count(".") == 1 and k.split(".")[1] == meth and k.split(".")[0] not in ("self", "cls") and k.split(".")[0].isidentifier()
                 and k.split(".")[0] not in _FN_NAMES[key] and k.split(".")[0] not in self.globals_]
        if len(cands) != 1:
            return label, cfg
        want = cands[0].split(".")[0]
        return cands[0], cfg.set(want, cfg.env[var])

    def _positional(self, fval, args, kwargs, label=None):
        """Arguments of a call of a repository function in the order of its parameters: `f(a, now=n)` and `f(a, n)` are the same call.
        Summaries and event readers index positional arguments; keywords that name the next positional parameters are moved there."""
        if not kwargs:
            return args, kwargs
        fn, recv = None, None
        if isinstance(fval, FuncV) and getattr(fval, "node", None) is not None and not isinstance(fval.node, ast.Lambda):
            fn, recv = fval.node, fval.recv
        elif label and self.program is not None and label.count(".") >= 1:
            # `Class.method(..)` of a repository class reached through an imported name
            parts = label.split(".")
            cu = self.program.classes.get(parts[-2])
            if cu is not None:
                mu = self.program.by_qual.get((cu.rel, f"{cu.qual}.{parts[-1]}"))
                if mu is not None and isinstance(mu.node, (ast.FunctionDef, ast.AsyncFunctionDef)):
                    fn, recv = mu.node, cu
        if fn is None:
            return args, kwargs
        pos = [a.arg for a in fn.args.posonlyargs + fn.args.args]
        bound = recv is not None and pos and not any(isinstance(d, ast.Name) and d.id == "staticmethod" for d in fn.decorator_list)
        if bound:
            pos = pos[1:]
        args = list(args)
        i = len(args)
        while i < len(pos) and pos[i] in kwargs and i >= len(fn.args.posonlyargs) - (1 if bound else 0):
            args.append(kwargs[pos[i]])  # (the keyword stays in kwargs as well: readers by name and readers by position both find it)
            i += 1
        return args, kwargs

    def call(self, interp, node, fname, fval, args, kwargs, cfg, out):
        label = self.label(fname, fval)
        label, cfg = self._alias(interp, label, cfg)
        call_args = args
        args, _ = self._positional(fval, args, kwargs, label)  # for summaries and events only; a call that is interpreted keeps its own form
        if isinstance(fval, App) and fval.op == "boundmethod":
            r = interp.container_method(node, fval.args[0], fval.args[1].v, args, kwargs, cfg)
            if r is not None:
                return r
        if label in self.summaries:
            return self.summaries[label](interp, node, args, kwargs, cfg, out)
        if isinstance(fval, FuncV) and isinstance(fval.recv, ObjV):
            # a summary given for a scenario object applies wherever the object is called from (also inside an interpreted helper)
            rlabel = f"<{fval.recv.oid}>.{fval.name.rsplit('.', 1)[-1]}"
            if rlabel in self.summaries:
                return self.summaries[rlabel](interp, node, args, kwargs, cfg, out)
        ev = self.event_for(label) if label else None
        if ev and ev in self.acquire_labels:
            # an acquisition counts only if the call returns (and, when awaited, the await completes)
            if not self.is_no_raise(label) and self.may_raise_all:
                out.add("raise", cfg.set("$exc", ExcV("Exception", f"call {label} L{getattr(node, 'lineno', 0)}")))
            if isinstance(getattr(node, "_parent", None), ast.Await):
                self._pending_acquire[id(node)] = ("call", ev, tuple(args), tuple(kwargs.items()), getattr(node, "lineno", 0))
            else:
                cfg = cfg.emit(("call", ev, tuple(args), tuple(kwargs.items()), getattr(node, "lineno", 0)))
            return [(cfg, App("res", (Const(label), Const(getattr(node, "lineno", 0)), *args)))]
        if ev:
            cfg = cfg.emit(("call", ev, tuple(args), tuple(kwargs.items()), getattr(node, "lineno", 0)))
        elif self.track_calls and label:
            cfg = cfg.emit(("call", label, (), (), getattr(node, "lineno", 0)))
        r = interp.builtin_call(node, fname, fval, args, kwargs, cfg, out)
        if r is not None:
            return r
        if isinstance(fval, FuncV) and (fval.name in self.inline or (label in self.inline) or self._inline_unit(fval)):
            return None  # let the interpreter inline it
        if isinstance(fval, FuncV) and fval.closure and self.inline_nested(fval):
            return None
        if self.auto_inline and not ev and isinstance(fval, FuncV) and getattr(fval, "node", None) is not None and not isinstance(fval.node, ast.Lambda) \
                and label not in self.raising_labels and label not in self.extra_no_raise and self._small_local_helper(interp, fval) \
                and (not isinstance(fval.node, ast.AsyncFunctionDef) or isinstance(getattr(node, "_parent", None), ast.Await)):  # (calling a coroutine function runs nothing until it is awaited)
            if self.inline_depth < 2:
                self.inline_depth = 2
            self.free_inline.add(id(fval.node))
            return None
        # un-inlined call
        if label in self.raising_labels or (label and any(label.endswith(x) for x in self.raising_suffixes)):
            out.add("raise", cfg.set("$exc", ExcV("Exception", f"user code via {label} L{getattr(node, 'lineno', 0)}")))
        elif not self.is_no_raise(label) and self.may_raise_all:
            out.add("raise", cfg.set("$exc", ExcV("Exception", f"call {label or '?'} L{getattr(node, 'lineno', 0)}")))
        if label in PURE_FUNCS:
            return [(cfg, App(label, tuple(args)))]
        if isinstance(fval, ClassV):
            return [(cfg, App("new", (fval, *args)))]
        return [(cfg, App("res", (Const(label or "?"), Const(getattr(node, "lineno", 0)), *args)))]

    def _inline_unit(self, fval):
        """`inline` entries written as unit names (module::qualified name) select the function itself, wherever the code keeps it and however it is called."""
        node = getattr(fval, "node", None)
        if node is None or self.program is None:
            return False
        for x in self.inline:
            if isinstance(x, str) and "::" in x:
                u = self.program.units.get(x)
                if u is not None and u.node is node:
                    return True
        return False

    def _small_local_helper(self, interp, fval):
        """A small function of the module under analysis (same class or module level): the shape an 'extract method' refactoring produces."""
        node = fval.node
        if sum(1 for n in ast.walk(node) if isinstance(n, ast.stmt)) > self.auto_inline_max_stmts:
            return False
        rel = getattr(interp, "module_rel", None)
        if not rel or self.program is None:
            return False
        try:
            mod = self.program.module(rel)
        except Exception:  # noqa
            return False
        return any(n is node for n in ast.walk(mod))

    def keep_local(self, name):
        return self.locals_ is None or name in self.locals_ or name.startswith("$")

    def abstract_local(self, name, val, node):
        if not self.widen_locals or name in ("self", "cls"):
            return val
        if isinstance(val, (Const, ObjV, ClassV, FuncV)):
            return val
        if isinstance(val, Sym) and val.tag and val.tag[0] in ("param", "ver"):
            return val
        notnone = isinstance(val, (ListV, DictV)) or (isinstance(val, App) and val.op == "new")
        return Sym(("ver", name, getattr(node, "lineno", 0), notnone))

    def atom_relevant(self, interp, node, val, cfg):
        if self.locals_ is None:
            return True
        for n in ast.walk(node):
            if isinstance(n, ast.Name) and n.id in self.locals_ and n.id not in ("self", "cls"):
                return True
            if isinstance(n, ast.Attribute) and n.attr in self.atom_attrs:
                return True
        return False

    def inline_nested(self, fval):
        return False

    def call_raises(self, interp, node, fname, fval, cfg):
        return ()

    def await_raises(self, interp, node, cfg):
        return ("CancelledError",) if self.cancel else ()

    def on_await(self, interp, node, cfg):
        ev = self._pending_acquire.pop(id(node.value), None)
        if ev is not None:
            return cfg.emit(ev)
        return cfg

    def resolve(self, interp, fname, fval, cfg):
        return None


class FlowInterp(Interp):
    """Interp variant: FuncV values that are not selected for inlining are treated as unknown callees."""

    def call(self, node, fname, fval, args, kwargs, cfg, out):
        r = self.policy.call(self, node, fname, fval, args, kwargs, cfg, out)
        if r is not None:
            return r
        r = self.builtin_call(node, fname, fval, args, kwargs, cfg, out)
        if r is not None:
            return r
        if isinstance(fval, FuncV) and (self.depth < self.policy.inline_depth or id(fval.node) in getattr(self.policy, "free_inline", ())) and self.can_inline(fval):
            return self.inline(node, fval, args, kwargs, cfg, out)
        return [(cfg, App("res", (Const(fname or "?"), *args)))]


def run_flow(program, uid, policy, args=None, heap=None, self_cls=None):
    """Abstractly run function ``uid`` under ``policy``; parameters default to opaque symbols."""
    unit = program.unit(uid)
    fn = unit.node
    interp = FlowInterp(policy, unit.rel)
    interp.unit = unit
    env = {}
    params = [a.arg for a in fn.args.posonlyargs + fn.args.args + fn.args.kwonlyargs]
    if fn.args.vararg:
        params.append(fn.args.vararg.arg)
    if fn.args.kwarg:
        params.append(fn.args.kwarg.arg)
    defaults = {}
    pos = fn.args.posonlyargs + fn.args.args
    for a, d in zip(pos[len(pos) - len(fn.args.defaults):], fn.args.defaults):
        if isinstance(d, ast.Constant):
            defaults[a.arg] = Const(d.value)
    for a, d in zip(fn.args.kwonlyargs, fn.args.kw_defaults):
        if isinstance(d, ast.Constant):
            defaults[a.arg] = Const(d.value)
    for p in params:
        if args and p in args:
            env[p] = args[p]
        elif p == "self" and (self_cls or unit.cls or _enclosing_class(program, unit)):
            env[p] = ObjV("self", self_cls or unit.cls or _enclosing_class(program, unit))
        elif p == "cls" and (self_cls or _enclosing_class(program, unit)):
            env[p] = ClassV(self_cls or _enclosing_class(program, unit))
        elif args is not None and p in defaults:
            env[p] = defaults[p]  # a scenario that names its arguments leaves the others at their (constant) defaults, as a call would
        else:
            env[p] = Sym(("param", p))
    # a summary given for a method of a scenario object (`self.active_expr.eval`, heap slot self.active_expr -> <aexpr>) follows the object:
    # it applies as well when the object is passed to an interpreted helper and called there under another name
    summ = getattr(policy, "summaries", None)
    if isinstance(summ, dict):
        for label in list(summ):
            if isinstance(label, str) and "." in label and not label.startswith("<"):
                slot, meth = label.rsplit(".", 1)
                v = (heap or {}).get(slot) if "." in slot else env.get(slot)
                if isinstance(v, ObjV):
                    summ.setdefault(f"<{v.oid}>.{meth}", summ[label])
    interp.call_stack.append(fn)
    out = interp.run_function(fn, env, Cfg(heap=dict(heap or {})))
    return out


def _enclosing_class(program, unit):
    q = unit.qual.split(".")
    if len(q) >= 2 and q[-2] in program.classes:
        return q[-2]
    return None


def exits(out: Out):
    """(kind, cfg, description) for every way out of the function."""
    res = []
    for c in out.get("return"):
        res.append(("return", c, "return"))
    for c in out.get("raise"):
        exc = c.env.get("$exc")
        res.append(("raise", c, f"raise {getattr(exc, 'cls', '?')} at {getattr(exc, 'origin', '?')}"))
    return res


def call_events(cfg, names=None):
    return [e for e in cfg.trace if e[0] == "call" and (names is None or e[1] in names)]


def relevant_locals(fn, obj_names, attrs):
    """Locals that carry values from/to the tracked attributes ``<obj>.<attr>`` (transitive, syntactic)."""
    tracked = set()

    def mentions(node):
        for n in ast.walk(node):
            if isinstance(n, ast.Attribute) and n.attr in attrs and isinstance(n.value, ast.Name) and n.value.id in obj_names:
                return True
            if isinstance(n, ast.Name) and n.id in tracked:
                return True
            # the result of a helper that is handed the tracked object (`saved = self._enter_scope(ast_ctx, ..)`) may carry its attributes
            if isinstance(n, ast.Call) and any(isinstance(a, ast.Name) and a.id in obj_names - {"self", "cls"} for a in n.args):
                return True
        return False

    changed = True
    while changed:
        changed = False
        for n in ast.walk(fn):
            if isinstance(n, ast.Assign):
                tnames = {x.id for t in n.targets for x in ast.walk(t) if isinstance(x, ast.Name) and isinstance(x.ctx, ast.Store)}
                tattr = any(isinstance(x, ast.Attribute) and x.attr in attrs and isinstance(x.value, ast.Name) and x.value.id in obj_names
                            for t in n.targets for x in ast.walk(t))
                if mentions(n.value) and tnames - tracked:
                    tracked |= tnames
                    changed = True
                if tattr:
                    vn = {x.id for x in ast.walk(n.value) if isinstance(x, ast.Name)} - set(obj_names)
                    if vn - tracked:
                        tracked |= vn
                        changed = True
    return tracked | set(obj_names)


def pairing(out: Out, pairs):
    """For every exit: acquisitions (by kind) not followed by their release.  pairs: {acquire_label: (kind, release_labels)}."""
    leaks = []
    n = 0
    for kind, c, desc in exits(out):
        n += 1
        held = {}
        for e in c.trace:
            if e[0] != "call":
                continue
            lab = e[1]
            if lab in pairs:
                held[pairs[lab][0]] = e[4]
            else:
                for acq, (k, rels) in pairs.items():
                    if lab in rels:
                        held.pop(k, None)
        for k, line in held.items():
            leaks.append((k, line, kind, desc))
    return n, leaks


def module_constants(program, rel):
    """Simple module-level constants of ``rel`` (strings, numbers, tuples/sets of them) as abstract values."""
    consts = {}
    for st in program.module(rel).body:
        if isinstance(st, ast.Assign) and len(st.targets) == 1 and isinstance(st.targets[0], ast.Name):
            v = st.value
            if isinstance(v, ast.Constant):
                consts[st.targets[0].id] = Const(v.value)
            elif isinstance(v, (ast.Tuple, ast.List, ast.Set)) and all(isinstance(e, ast.Constant) for e in v.elts):
                kind = {"Tuple": "tuple", "List": "list", "Set": "set"}[type(v).__name__]
                consts[st.targets[0].id] = ListV([Const(e.value) for e in v.elts], kind)
    return consts


def _concrete(v):
    if isinstance(v, Const):
        return True
    if isinstance(v, ListV):
        return all(_concrete(x) for x in v.items)
    if isinstance(v, DictV):
        return all(_concrete(k) and _concrete(x) for k, x in v.items)
    return False


def _module_name_value(program, rel, name, given, depth=3):
    """Value of the module-level name ``name`` of module ``rel``: a constant assigned there or imported from a sibling module of the package."""
    if name in given:
        return given[name]
    if depth <= 0:
        return None
    try:
        mod = program.module(rel)
    except Exception:  # noqa
        return None
    for st in mod.body:
        if isinstance(st, ast.Assign) and len(st.targets) == 1 and isinstance(st.targets[0], ast.Name) and st.targets[0].id == name:
            return _const_expr(program, rel, st.value, given, depth - 1)
        if isinstance(st, ast.ImportFrom) and st.level >= 1 and any((a.asname or a.name) == name for a in st.names):
            orig = next(a.name for a in st.names if (a.asname or a.name) == name)
            base = os.path.dirname(rel)
            for _ in range(st.level - 1):
                base = os.path.dirname(base)
            target = os.path.join(base, *(st.module or "").split(".")) if st.module else base
            for cand in (target + ".py", os.path.join(target, "__init__.py")):
                cand = os.path.normpath(cand)
                if cand in program.modules:
                    return _module_name_value(program, cand, orig, {}, depth - 1)
    return None


def _const_expr(program, rel, node, given=None, depth=3):
    """Value of a module-level constant expression built from literals and other module-level constants (interpreted, never executed), or None."""
    if any(isinstance(n, (ast.Await, ast.Lambda, ast.Yield, ast.YieldFrom, ast.NamedExpr)) for n in ast.walk(node)):
        return None
    from .absint import Interp, Policy
    env = {}
    for n in ast.walk(node):
        if isinstance(n, ast.Name) and n.id not in env:
            v = _module_name_value(program, rel, n.id, given or {}, depth)
            if v is not None and _concrete(v):
                env[n.id] = v
    try:
        res = Interp(Policy(program), rel).ev(node, Cfg(env=env), Out())
    except Exception:  # noqa - not interpretable: not a constant for this purpose
        return None
    if len(res) == 1 and _concrete(res[0][1]):
        return res[0][1]
    if depth > 0 and any(isinstance(n, ast.Call) for n in ast.walk(node)):
        # a table computed by a helper of the module (`NAMES = _class_names(ast.For, ast.With)`): the helper is interpreted too
        try:
            pol = FlowPolicy(program, may_raise_all=False, cancel=False)
            pol.inline_depth = 3
            res = FlowInterp(pol, rel).ev(node, Cfg(env=env), Out())
        except Exception:  # noqa
            return None
        if len(res) == 1 and _concrete(res[0][1]):
            return res[0][1]
    return None


def _lit(v):
    """A Python literal (module-level constant table) as an abstract value."""
    if isinstance(v, (list, tuple)):
        return ListV(tuple(_lit(x) for x in v), "tuple" if isinstance(v, tuple) else "list")
    if isinstance(v, (set, frozenset)):
        return ListV(tuple(_lit(x) for x in sorted(v, key=repr)), "set")
    if isinstance(v, dict):
        return DictV([(_lit(k), _lit(x)) for k, x in v.items()])
    return Const(v)
