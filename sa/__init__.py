"""Static-analysis machinery for custom-components/pyscript (see /verif/DESIGN.md)."""
