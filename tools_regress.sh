#!/bin/bash
# Dev helper (not a check): wider regression net run after each fix commit - tests that pass standalone in this sandbox.
cd /repo
r1=$(timeout 900 /venv/bin/python -m pytest -q -p no:cacheprovider tests/test_unit_eval.py::test_eval tests/test_unit_eval.py::test_eval_exceptions tests/test_unit_trigger.py tests/test_tasks.py tests/test_unique.py tests/test_function.py tests/test_state.py tests/test_reload.py tests/test_decorators.py tests/test_apps_modules.py tests/test_init.py tests/test_requirements.py 2>&1 | tail -1)
r2=$(NODM=1 timeout 900 /venv/bin/python -m pytest -q -p no:cacheprovider tests/test_function.py tests/test_unique.py tests/test_tasks.py tests/test_decorators.py tests/test_reload.py tests/test_init.py tests/test_apps_modules.py tests/test_state.py 2>&1 | tail -1)
echo "default: $r1"; echo "legacy : $r2"
